package checks

import (
	"bytes"
	"context"
	"encoding/json"
	stdflag "flag"
	"fmt"
	"os"
	"reflect"
	"sort"
	"strings"
	"time"

	toml "github.com/pelletier/go-toml"
	"github.com/vimeo/dials"
	"github.com/vimeo/dials/common"
	cuedec "github.com/vimeo/dials/decoders/cue"
	jsondec "github.com/vimeo/dials/decoders/json"
	tomldec "github.com/vimeo/dials/decoders/toml"
	yamldec "github.com/vimeo/dials/decoders/yaml"
	"github.com/vimeo/dials/ptrify"
	"github.com/vimeo/dials/sources/static"
	"github.com/vimeo/dials/sources/env"
	stdflagsrc "github.com/vimeo/dials/sources/flag"
	"github.com/vimeo/dials/sourcewrap"
	"github.com/vimeo/dials/transform"
	yaml "gopkg.in/yaml.v2"

	"verifharness/fw"
	"verifharness/gen"
)

func init() {
	fw.Register(&fw.Check{
		ID: "C14",
		Rule: "Each case: a seeded reflect.StructOf config type (depth <=3, nested/pointer/embedded structs) in which a random subset of leaves carries an alias tag (dialsalias, or the source-specific dialsenvalias / dialsflagalias / dialspflagalias), with and without an explicit primary tag; for every aliased leaf one of the four patterns neither / primary / alias / both is drawn independently and the values are supplied through one alias-capable source: " +
			"the environment source, sources/flag, sources/pflag, or a JSON / YAML / TOML / Cue document read through sourcewrap.NewTransformingDecoder(decoder, NewAliasMangler(\"dials\")) as ez wraps them, plus a static config type through the ez entry points themselves (with and without a FileFieldNameEncoder, which must re-case primary and alias names alike). Expected: unset / value / value / an error whose text contains the Go field name; non-aliased leaves are set normally at random. Names of primaries and aliases are computed from the generator's word lists. " +
			"Leaves (aliased or not) additionally carry, at random, alias tags that belong to OTHER sources (dialsflagalias on a type read by the environment source or a file decoder, ...): in the source at hand such a tag adds no name, so a leaf with only such tags must behave like any non-aliased leaf (set under its one name, no error). " +
			"About a third of the sources/flag cases build the source over a FlagSet on which the application has already defined a random subset of the primary and alias flag names itself with the flag package's own definers (string, bool, int, int64, uint, uint64, float64, duration: the kinds whose flag.Getter yields exactly the field's type), through a flag.Set literal or NewCmdLineSet on a substituted flag.CommandLine; sources/flag leaves such flags alone and reads them through flag.Getter, and the four patterns must come out the same. " +
			"List-element episodes: a static type whose list-of-struct elements carry aliased fields (elements are not pointerified), the four patterns drawn per element field, through the alias-wrapped JSON decoder. " +
			"distinct_nontrivial = distinct (source, type-shape, alias-tag kinds, pattern vector) signatures with >=1 leaf carrying an alias tag (its own source's or only another source's).",
		Assumptions: []string{
			"a field carrying both an alias tag and a format-specific tag is outside the statement and not generated",
			"application-defined flags are exercised for sources/flag only: sources/pflag has no typed getter for a flag it did not register and never reads the value of such a flag (pflag.go keeps values only for the flags it registered; the statement is silent on it), so nothing is asserted there",
			"in the generated types alias tags are put on leaves; an alias on a struct-typed field (section under either name, inner aliases inside both, both keys present with one section empty) is exercised through the static ez config type",
		},
		MinDistinct: map[string]int{"quick": 8000, "thorough": 1000000},
		MinCounters: map[string]map[string]int64{
			"quick":    {"aliased_leaves_judged": 12000, "pattern_neither": 2000, "pattern_primary": 2000, "pattern_alias": 2000, "both_set_errors_checked": 1500,
				"leaves_with_only_another_sources_alias_tag_supplied": 2000, "flag_cases_with_application_defined_flags": 200, "values_supplied_through_application_defined_flags": 300},
			"thorough": {"aliased_leaves_judged": 300000},
		},
		Plan: func(tier string) fw.Plan {
			if tier == "thorough" {
				return fw.Plan{Shards: 96, CasesPerShard: 30000, Parallel: 16, TimeoutSec: 3000}
			}
			return fw.Plan{Shards: 16, CasesPerShard: 1200, TimeoutSec: 600}
		},
		Run: runC14,
	})
}

var c14FileLeaves = []string{"int", "int64", "uint16", "string", "bool", "float64", "[]string", "[]int", "map[string]string", "duration"}

type c14Alias struct {
	// tagKey is the alias tag used ("dialsalias", "dialsenvalias", ...);
	// words are the alias's words (rendered in style); verbatim is the tag value.
	tagKey   string
	words    []string
	verbatim string
}

func runC14(w *fw.Worker) {
	os.Clearenv()
	families := []string{"env", "flag", "pflag", "json", "yaml", "toml", "cue"}
	w.Cases(func(i int, r *fw.Rand) {
		if i%40 == 39 {
			c14Ez(w, i, r)
			return
		}
		if i%40 == 19 {
			c14ListElems(w, i, r)
			return
		}
		fam := families[i%len(families)]
		isFile := fam == "json" || fam == "yaml" || fam == "toml" || fam == "cue"
		var pool []*gen.Leaf
		switch {
		case fam == "env":
			pool = gen.LeavesWith(gen.CapEnv, 0)
		case isFile:
			for _, n := range c14FileLeaves {
				pool = append(pool, gen.LeafByName(n))
			}
		default:
			pool = flagLeaves()
		}
		// flag source over a FlagSet on which the application defined some flags itself (see below): more of the
		// kinds the flag package has definers for
		predef := fam == "flag" && r.Chance(35)
		if predef {
			pool = append([]*gen.Leaf(nil), pool...)
			for rep := 0; rep < 6; rep++ {
				for _, n := range c14StdFlagKinds {
					pool = append(pool, gen.LeafByName(n))
				}
			}
		}
		o := gen.GenOpts{MaxDepth: 3 - r.Intn(2), MaxFields: r.Range(2, 6), StructPct: r.Range(10, 45), TagPct: r.Range(20, 70), Leaves: pool, InitialismPct: 15, TagStyles: []string{"snake", "kebab", "lowerCamel"}}
		if isFile {
			o.TagPct = 100 // file keys come from dials tags
			o.NoEmbedded = true
			o.TagStyles = []string{"snake"}
		}
		spec := gen.RandomSpec(r, o)
		leaves := spec.LeafRefs()
		// choose aliased leaves and their alias tags (before the type is built)
		aliases := map[*gen.LeafRef]*c14Alias{}
		srcAliasKey := map[string]string{"env": "dialsenvalias", "flag": "dialsflagalias", "pflag": "dialspflagalias"}[fam]
		// foreignOnly: leaves whose only alias tags belong to OTHER sources (dialsflagalias on a type read by the
		// environment source or by a file decoder, ...): in the source at hand such a field has exactly one name.
		foreignOnly := map[*gen.LeafRef]string{}
		var foreignKeys []string
		for _, k := range []string{"dialsenvalias", "dialsflagalias", "dialspflagalias"} {
			if k != srcAliasKey {
				foreignKeys = append(foreignKeys, k)
			}
		}
		addForeign := func(k int, lr *gen.LeafRef) string {
			if !r.Chance(22) {
				return ""
			}
			f := lr.Leaf()
			fk := fw.Pick(r, foreignKeys)
			switch fk {
			case "dialsenvalias":
				f.Tags[fk] = fmt.Sprintf("OTHER_%s_%d", gen.UpperSnake(f.Words), k)
			default:
				f.Tags[fk] = fmt.Sprintf("other-%s-%d", gen.Kebab(f.Words), k)
			}
			if r.Chance(25) {
				// alias tags of both other sources
				for _, fk2 := range foreignKeys {
					if _, ok := f.Tags[fk2]; !ok {
						f.Tags[fk2] = fmt.Sprintf("other2-%s-%d", gen.Kebab(f.Words), k)
						fk += "+" + fk2
					}
				}
			}
			return fk
		}
		for k, lr := range leaves {
			fgn := addForeign(k, lr)
			if !r.Chance(45) {
				if fgn != "" {
					foreignOnly[lr] = fgn
				}
				continue
			}
			f := lr.Leaf()
			a := &c14Alias{tagKey: "dialsalias", words: []string{fw.Pick(r, gen.OrdinaryWords), fmt.Sprintf("al%d", k)}}
			style := "snake"
			if f.TagStyle != "" {
				style = f.TagStyle
			}
			a.verbatim = gen.StyleWords(style, a.words)
			if srcAliasKey != "" && r.Chance(30) {
				a.tagKey = srcAliasKey
				switch fam {
				case "env":
					a.verbatim = fmt.Sprintf("ALT_%s_%d", gen.UpperSnake(f.Words), k)
				default:
					a.verbatim = fmt.Sprintf("alt-%s-%d", gen.Kebab(f.Words), k)
				}
			}
			f.Tags[a.tagKey] = a.verbatim
			if isFile && f.TagWords == nil {
				continue
			}
			aliases[lr] = a
		}
		if len(aliases) == 0 && len(foreignOnly) == 0 {
			return
		}
		if !isFile && !gen.FlattenedNamesDistinct(leaves) {
			w.Count("skipped_ambiguous_names", 1)
			return
		}
		// primary and alias names must all be distinct for the naming rule to be unambiguous
		{
			seen := map[string]bool{}
			dup := false
			note := func(n string) {
				if seen[n] {
					dup = true
				}
				seen[n] = true
			}
			for _, lr := range leaves {
				a := aliases[lr]
				switch {
				case fam == "env":
					note(envName("P", lr))
					if a != nil {
						note(c14EnvAliasName("P", lr, a))
					}
				case fam == "flag" || fam == "pflag":
					tk := map[string]string{"flag": "dialsflag", "pflag": "dialspflag"}[fam]
					note(flagName(tk, false, lr))
					if a != nil {
						note(c14FlagAliasName(tk, lr, a))
					}
				default:
					note(strings.Join(c14FileKeys(lr, a, false), "\x00"))
					if a != nil {
						note(strings.Join(c14FileKeys(lr, a, true), "\x00"))
					}
				}
			}
			if dup {
				w.Count("skipped_ambiguous_names", 1)
				return
			}
		}
		c := &gen.Counter{}
		layer := &gen.Layer{Vals: map[*gen.LeafRef]reflect.Value{}}
		type supply struct {
			lr    *gen.LeafRef
			alias bool
			v     reflect.Value
		}
		genVal := func(lf *gen.Leaf) reflect.Value {
			if isFile {
				return c14SafeValue(lf, c.Next())
			}
			v := lf.Gen(r, c.Next())
			if fam == "pflag" && lf.Name == "[]string" {
				v = reflect.ValueOf(pflagCSVNorm(v.Interface().([]string)))
			}
			return v
		}
		var supplies []supply
		var bothFields []string
		var pat strings.Builder
		var kinds strings.Builder
		for _, lr := range leaves {
			lf := lr.Leaf().Leaf
			a := aliases[lr]
			if a == nil {
				pct := 45
				if foreignOnly[lr] != "" {
					pct = 70
					kinds.WriteString("x")
				}
				if r.Chance(pct) {
					v := genVal(lf)
					layer.Vals[lr] = v
					supplies = append(supplies, supply{lr, false, v})
					if foreignOnly[lr] != "" {
						w.Count("leaves_with_only_another_sources_alias_tag_supplied", 1)
						pat.WriteByte('p')
					}
				} else if foreignOnly[lr] != "" {
					pat.WriteByte('n')
				}
				continue
			}
			kinds.WriteString(a.tagKey[5:6])
			p := r.Intn(4)
			pat.WriteByte(byte('0' + p))
			switch p {
			case 0:
				w.Count("pattern_neither", 1)
			case 1:
				v := genVal(lf)
				layer.Vals[lr] = v
				supplies = append(supplies, supply{lr, false, v})
				w.Count("pattern_primary", 1)
			case 2:
				v := genVal(lf)
				layer.Vals[lr] = v
				supplies = append(supplies, supply{lr, true, v})
				w.Count("pattern_alias", 1)
			case 3:
				supplies = append(supplies, supply{lr, false, genVal(lf)}, supply{lr, true, genVal(lf)})
				bothFields = append(bothFields, lr.Leaf().Name)
			}
		}
		zero := reflect.New(spec.Type())
		ptrType := ptrify.Pointerify(spec.Type(), zero.Elem())
		var got reflect.Value
		var verr error
		desc := map[string]any{"source": fam, "type": spec.Describe()}
		describeTags := []string{}
		for lr, a := range aliases {
			describeTags = append(describeTags, fmt.Sprintf("%s: %s=%q primary dials=%q", lr, a.tagKey, a.verbatim, lr.Leaf().Tags["dials"]))
		}
		desc["aliases"] = describeTags
		if len(foreignOnly) > 0 {
			var fo []string
			for lr, k := range foreignOnly {
				fo = append(fo, fmt.Sprintf("%s: %s", lr, k))
			}
			desc["leaves_whose_only_alias_tags_belong_to_other_sources"] = fo
		}
		if r.Bool() && gen.FlattenedNamesDistinct(leaves) {
			// as in ez, another alias-capable source over the same struct builds its view of it first (env and flag
			// sources flatten the type, which presupposes distinct flattened names)
			other := "env"
			if fam == "env" {
				other = []string{"flag", "pflag"}[r.Intn(2)]
			}
			desc["type_seen_first_by"] = other
			switch other {
			case "env":
				(&env.Source{Prefix: "C14_NO_SUCH_PREFIX"}).Value(context.Background(), dials.NewType(ptrType))
			default:
				pk := flagPkgs[0]
				if other == "pflag" {
					pk = flagPkgs[1]
				}
				if src, _, err := pk.build(false, zero.Interface(), nil); err == nil {
					src.Value(context.Background(), dials.NewType(ptrType))
				}
			}
			w.Count("cases_where_another_source_saw_the_type_first", 1)
		}
		famKey := fam
		switch {
		case fam == "env":
			prefix := fmt.Sprintf("A%dS%dC%d", w.Seed%1000000, w.Shard, i)
			vars := map[string]string{}
			for _, s := range supplies {
				n := envName(prefix, s.lr)
				if s.alias {
					n = c14EnvAliasName(prefix, s.lr, aliases[s.lr])
				}
				vars[n] = s.lr.Leaf().Leaf.Text(s.v)
			}
			for k, v := range vars {
				os.Setenv(k, v)
			}
			desc["variables"] = vars
			got, verr = (&env.Source{Prefix: prefix}).Value(context.Background(), dials.NewType(ptrType))
		case fam == "flag" || fam == "pflag":
			pk := flagPkgs[0]
			if fam == "pflag" {
				pk = flagPkgs[1]
			}
			var argv []string
			for _, s := range supplies {
				n := flagName(pk.tagKey, false, s.lr)
				if s.alias {
					n = c14FlagAliasName(pk.tagKey, s.lr, aliases[s.lr])
				}
				t := s.lr.Leaf().Leaf.Text(s.v)
				if fam == "pflag" && s.lr.Leaf().Leaf.Name == "[]string" {
					t = csvLine(s.v.Interface().([]string))
				}
				argv = append(argv, "--"+n+"="+t)
			}
			desc["argv"] = argv
			if predef {
				// The application (or a library linked into it) has defined some of the flags itself, with the flag
				// package's own definers, before dials registers the config's flags on the same FlagSet: sources/flag
				// leaves such a flag alone ("so the user can override our behavior") and reads its value through
				// flag.Getter. Whether the primary or the alias name (or both, or neither) of a field is one of those
				// flags, the four patterns must come out the same.
				famKey = "flag:flagset-with-application-defined-flags"
				fs := stdflag.NewFlagSet("c14", stdflag.ContinueOnError)
				fs.SetOutput(discard{})
				defined := map[string]bool{}
				for _, lr := range leaves {
					def := c14StdFlagDefiners[lr.Leaf().Leaf.Name]
					if def == nil {
						continue
					}
					names := []string{flagName(pk.tagKey, false, lr)}
					if a := aliases[lr]; a != nil {
						names = append(names, c14FlagAliasName(pk.tagKey, lr, a))
					}
					for _, n := range names {
						if r.Chance(55) && !defined[n] {
							def(fs, n)
							defined[n] = true
						}
					}
				}
				if len(defined) == 0 {
					w.Count("flag_cases_with_application_defined_flags:none_definable", 1)
				}
				var dn []string
				through := int64(0)
				for n := range defined {
					dn = append(dn, n)
					for _, a := range argv {
						if strings.HasPrefix(a, "--"+n+"=") {
							through++
						}
					}
				}
				sort.Strings(dn)
				desc["flags_defined_by_the_application_beforehand"] = dn
				cmdline := r.Chance(40)
				desc["constructor"] = map[bool]string{true: "NewCmdLineSet on flag.CommandLine", false: "flag.Set literal over the FlagSet"}[cmdline]
				func() {
					if !cmdline {
						set := &stdflagsrc.Set{Flags: fs, ParseFunc: func() error { return fs.Parse(argv) }}
						got, verr = set.Value(context.Background(), dials.NewType(ptrType))
						return
					}
					oldCL, oldArgs := stdflag.CommandLine, os.Args
					defer func() { stdflag.CommandLine, os.Args = oldCL, oldArgs }()
					stdflag.CommandLine, os.Args = fs, append([]string{"c14"}, argv...)
					set, err := stdflagsrc.NewCmdLineSet(stdflagsrc.DefaultFlagNameConfig(), zero.Interface())
					if err != nil {
						verr = fmt.Errorf("NewCmdLineSet: %w", err)
						return
					}
					got, verr = set.Value(context.Background(), dials.NewType(ptrType))
				}()
				if len(defined) > 0 {
					w.Count("flag_cases_with_application_defined_flags", 1)
					w.Count("values_supplied_through_application_defined_flags", through)
				}
				pat.WriteString(fmt.Sprintf("|predef=%d,%v", len(defined), cmdline))
				break
			}
			src, _, err := pk.build(false, zero.Interface(), argv)
			if err != nil {
				w.Violation(i, "flag-registration-error:"+fam, err.Error(), desc)
				return
			}
			got, verr = src.Value(context.Background(), dials.NewType(ptrType))
		default:
			doc := map[string]any{}
			for _, s := range supplies {
				keys := c14FileKeys(s.lr, aliases[s.lr], s.alias)
				m := doc
				for _, k := range keys[:len(keys)-1] {
					nm, ok := m[k].(map[string]any)
					if !ok {
						nm = map[string]any{}
						m[k] = nm
					}
					m = nm
				}
				m[keys[len(keys)-1]] = c14FileValue(s.v)
			}
			var text []byte
			var dec dials.Decoder
			switch fam {
			case "json":
				text, _ = json.Marshal(doc)
				dec = &jsondec.Decoder{}
			case "cue":
				text, _ = json.Marshal(doc)
				dec = &cuedec.Decoder{}
			case "yaml":
				text, _ = yaml.Marshal(doc)
				dec = &yamldec.Decoder{}
			case "toml":
				var b bytes.Buffer
				if err := toml.NewEncoder(&b).Encode(doc); err != nil {
					w.Note("toml encode failed: " + err.Error())
					return
				}
				text = b.Bytes()
				dec = &tomldec.Decoder{}
			}
			desc["document"] = string(text)
			wrapped := sourcewrap.NewTransformingDecoder(dec, transform.NewAliasMangler("dials"))
			got, verr = wrapped.Decode(bytes.NewReader(text), dials.NewType(ptrType))
		}
		w.Count("aliased_leaves_judged", int64(len(aliases)))
		if len(bothFields) > 0 {
			if verr == nil {
				w.Violation(i, "both-primary-and-alias-accepted:"+famKey, fmt.Sprintf("fields %v were supplied under both names and no error was returned", bothFields), desc)
				return
			}
			named := false
			for _, f := range bothFields {
				if strings.Contains(verr.Error(), f) {
					named = true
				}
			}
			if !named {
				w.Violation(i, "both-set-error-does-not-name-the-field:"+famKey, fmt.Sprintf("error %q names none of %v", verr.Error(), bothFields), desc)
				return
			}
			w.Count("both_set_errors_checked", 1)
		} else {
			if verr != nil {
				key := "error-without-both-set:" + famKey
				for lr := range foreignOnly {
					if strings.Contains(verr.Error(), fmt.Sprintf("%q", lr.Leaf().Name)) {
						key += ":names-a-field-whose-only-alias-tag-belongs-to-another-source"
						break
					}
				}
				w.Violation(i, key, verr.Error(), desc)
				return
			}
			res, cerr := dials.VerifCompose(zero.Interface(), []reflect.Value{got})
			if cerr != nil {
				w.Violation(i, "compose-error:"+famKey, cerr.Error(), desc)
				return
			}
			want := gen.ReferenceStack(reflect.New(spec.Type()).Elem(), []*gen.Layer{layer})
			if d := gen.Diff(want, reflect.ValueOf(res).Elem()); d != "" {
				// which pattern had the differing leaf?
				cls := "non-aliased"
				diffAt := func(lr *gen.LeafRef) bool {
					p := ""
					for _, f := range lr.Path {
						p += "." + f.Name
					}
					return strings.HasPrefix(d, p+":") || strings.HasPrefix(d, p+"*") || strings.HasPrefix(d, p+"[")
				}
				// (the diff's path marks pointer hops with '*' and may stop at a pointer-held struct that is nil on one side)
				dpath := d
				if k := strings.Index(dpath, ": "); k >= 0 {
					dpath = dpath[:k]
				}
				dpath = strings.ReplaceAll(dpath, "*", "")
				for lr := range foreignOnly {
					p := ""
					for _, f := range lr.Path {
						p += "." + f.Name
					}
					if diffAt(lr) || dpath == p || strings.HasPrefix(dpath, p+"[") {
						cls = "only-another-sources-alias-tag"
					}
				}
				for lr, a := range aliases {
					if diffAt(lr) {
						prim := "explicit-primary-tag"
						if lr.Leaf().TagWords == nil {
							prim = "implicit-primary-name"
						}
						cls = a.tagKey + ":" + prim
						for _, s := range supplies {
							if s.lr == lr {
								if s.alias {
									cls += ":supplied-under-alias"
								} else {
									cls += ":supplied-under-primary"
								}
							}
						}
						if _, ok := layer.Vals[lr]; !ok {
							cls += ":neither"
						}
					}
				}
				w.Violation(i, "alias-result-differs:"+famKey+":"+cls, d, desc)
				return
			}
		}
		w.Distinct(fam + spec.Signature() + kinds.String() + "#" + pat.String())
		if i%307 == 0 {
			w.Sample(desc)
		}
	})
}

// c14StdFlagDefiners: how an application defines a flag of the leaf's type with the flag package itself; only the
// kinds whose flag.Getter returns exactly the field's type (what sources/flag itself registers for them).
var c14StdFlagDefiners = map[string]func(fs *stdflag.FlagSet, name string){
	"string":   func(fs *stdflag.FlagSet, n string) { fs.String(n, "", "defined by the application") },
	"bool":     func(fs *stdflag.FlagSet, n string) { fs.Bool(n, false, "defined by the application") },
	"int":      func(fs *stdflag.FlagSet, n string) { fs.Int(n, 0, "defined by the application") },
	"int64":    func(fs *stdflag.FlagSet, n string) { fs.Int64(n, 0, "defined by the application") },
	"uint":     func(fs *stdflag.FlagSet, n string) { fs.Uint(n, 0, "defined by the application") },
	"uint64":   func(fs *stdflag.FlagSet, n string) { fs.Uint64(n, 0, "defined by the application") },
	"float64":  func(fs *stdflag.FlagSet, n string) { fs.Float64(n, 0, "defined by the application") },
	"duration": func(fs *stdflag.FlagSet, n string) { fs.Duration(n, 0, "defined by the application") },
}

var c14StdFlagKinds = []string{"string", "bool", "int", "int64", "uint", "uint64", "float64", "duration"}

// c14EnvAliasName: the variable name when the leaf is addressed by its alias.
func c14EnvAliasName(prefix string, lr *gen.LeafRef, a *c14Alias) string {
	name := ""
	switch a.tagKey {
	case "dialsenvalias":
		name = a.verbatim
	default:
		var words []string
		for k, f := range lr.Path {
			if k == len(lr.Path)-1 {
				words = append(words, a.words...)
			} else if f.TagWords != nil {
				words = append(words, f.TagWords...)
			} else if !f.IsEmbedded() {
				words = append(words, f.Words...)
			}
		}
		name = gen.UpperSnake(words)
	}
	if prefix != "" {
		name = prefix + "_" + name
	}
	return name
}

func c14FlagAliasName(pkgTag string, lr *gen.LeafRef, a *c14Alias) string {
	if a.tagKey != "dialsalias" {
		return a.verbatim
	}
	var parts []string
	for k, f := range lr.Path {
		if k == len(lr.Path)-1 {
			parts = append(parts, a.verbatim)
		} else if t, ok := f.Tags["dials"]; ok && f.TagWords != nil {
			parts = append(parts, t)
		} else if !f.IsEmbedded() {
			parts = append(parts, f.Words...)
		}
	}
	return strings.Join(parts, "-")
}

func c14FileKeys(lr *gen.LeafRef, a *c14Alias, alias bool) []string {
	var keys []string
	for k, f := range lr.Path {
		if alias && k == len(lr.Path)-1 {
			keys = append(keys, a.verbatim)
		} else {
			keys = append(keys, f.Tags["dials"])
		}
	}
	return keys
}

func c14FileValue(v reflect.Value) any {
	if v.Type().String() == "time.Duration" {
		return v.Interface().(fmt.Stringer).String()
	}
	return v.Interface()
}

// c14SafeValue: values every one of the four file formats (and the harness's
// quick document writers) carries without library-specific trouble; the
// decoders' value handling is C13's subject, here only the alias logic is.
func c14SafeValue(lf *gen.Leaf, uniq int) reflect.Value {
	switch lf.Name {
	case "int":
		return reflect.ValueOf(uniq)
	case "int64":
		return reflect.ValueOf(int64(uniq) * 1000)
	case "uint16":
		return reflect.ValueOf(uint16(uniq % 60000))
	case "string":
		return reflect.ValueOf(fmt.Sprintf("v%d", uniq))
	case "bool":
		return reflect.ValueOf(uniq%2 == 0)
	case "float64":
		return reflect.ValueOf(float64(uniq) + 0.5)
	case "[]string":
		return reflect.ValueOf([]string{fmt.Sprintf("a%d", uniq), "b"})
	case "[]int":
		return reflect.ValueOf([]int{uniq, uniq + 1})
	case "map[string]string":
		return reflect.ValueOf(map[string]string{fmt.Sprintf("k%d", uniq): fmt.Sprintf("v%d", uniq)})
	case "duration":
		return reflect.ValueOf(time.Duration(uniq) * time.Second)
	}
	panic("no safe value for " + lf.Name)
}

// Aliased fields inside the ELEMENTS of a list of structs ("independent of nesting depth"), read through an
// alias-wrapped JSON decoder built the way ez builds one.
type c14Elem struct {
	Port int    `dials:"port" dialsalias:"p"`
	Host string `dials:"host" dialsalias:"h"`
	Note string `dials:"note"`
}

type c14ListCfg struct {
	Name     string    `dials:"name" dialsalias:"title"`
	Backends []c14Elem `dials:"backends"`
}

func c14ListElems(w *fw.Worker, i int, r *fw.Rand) {
	n := r.Range(1, 4)
	want := c14ListCfg{}
	doc := map[string]any{}
	bothField := ""
	pattern := ""
	supply := func(obj map[string]any, primary, alias string, val any, goName string) (set bool) {
		switch k := r.Intn(8); {
		case k < 3:
			obj[primary] = val
			pattern += "p"
			return true
		case k < 6:
			obj[alias] = val
			pattern += "a"
			return true
		case k == 6:
			pattern += "-"
			return false
		default:
			if bothField != "" {
				pattern += "-"
				return false
			}
			obj[primary], obj[alias] = val, val
			bothField = goName
			pattern += "B"
			return true
		}
	}
	if supply(doc, "name", "title", fmt.Sprintf("n%d", i), "Name") {
		want.Name = fmt.Sprintf("n%d", i)
	}
	var list []any
	for k := 0; k < n; k++ {
		el := map[string]any{"note": fmt.Sprintf("note%d", k)}
		e := c14Elem{Note: fmt.Sprintf("note%d", k)}
		if supply(el, "port", "p", 1000+k, "Port") {
			e.Port = 1000 + k
		}
		if supply(el, "host", "h", fmt.Sprintf("host%d", k), "Host") {
			e.Host = fmt.Sprintf("host%d", k)
		}
		list = append(list, el)
		want.Backends = append(want.Backends, e)
	}
	doc["backends"] = list
	text, _ := json.Marshal(doc)
	desc := map[string]any{"part": "aliases-inside-list-elements", "document": string(text), "pattern": pattern}
	w.BeginDesc(i, fmt.Sprintf("%v", desc))
	dec := sourcewrap.NewTransformingDecoder(&jsondec.Decoder{}, transform.NewAliasMangler(common.DialsTagName))
	d, err := dials.Config(context.Background(), &c14ListCfg{}, &static.StringSource{Data: string(text), Decoder: dec})
	w.Count("alias_cases_inside_list_elements", 1)
	if bothField != "" {
		w.Count("both_set_inside_list_elements", 1)
		if err == nil {
			w.Violation(i, "no-error-with-both-set:json:inside-list-elements", fmt.Sprintf("field %s supplied under both names, Config returned %+v", bothField, *d.View()), desc)
			return
		}
		if !strings.Contains(err.Error(), bothField) {
			w.Violation(i, "both-set-error-does-not-name-the-field:json:inside-list-elements", err.Error(), desc)
			return
		}
		w.Distinct("list-elems|both|" + pattern)
		return
	}
	if err != nil {
		w.Violation(i, "error-without-both-set:json:inside-list-elements", err.Error(), desc)
		return
	}
	if got := *d.View(); !reflect.DeepEqual(got, want) {
		w.Violation(i, "alias-result-differs:json:inside-list-elements", fmt.Sprintf("got %+v, want %+v", got, want), desc)
		return
	}
	w.Distinct("list-elems|" + pattern)
}
