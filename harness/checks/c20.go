package checks

import (
	"context"
	"errors"
	"fmt"
	"reflect"
	"strings"
	"sync"
	"time"

	"github.com/vimeo/dials"
	jsondec "github.com/vimeo/dials/decoders/json"
	"github.com/vimeo/dials/sources/static"
	"github.com/vimeo/dials/sourcewrap"
	"github.com/vimeo/dials/tagformat"
	"github.com/vimeo/dials/tagformat/caseconversion"
	"github.com/vimeo/dials/transform"

	"verifharness/conc"
	"verifharness/fw"
	"verifharness/gen"
)

func init() {
	fw.Register(&fw.Check{
		ID:   "C20",
		Race: true,
		Rule: "Twin runs: the same layer history (initial value + 1-10 updates, blocking and non-blocking) is played (i) through sourcewrap.NewTransformingSource(fake inner source, manglers...) where the fake produces values OF THE TRANSLATED TYPE IT WAS ASKED FOR (filled by name with forward-converted typed values), and (ii) into a reference Dials whose fake source produces the pointerified original type directly; the two views must be equal after the initial stack and after every update. " +
			"Mangler lists: none, set-slice, duration substitution, tag reformat, the ez file chain, the flag chain (flatten), the env chain (flatten + string cast) and three anonymous-flatten chains (alone, the YAML decoder's, ez+YAML) over a config type with an embedded struct that has nested structs (by pointer and by value; values leave them set and entirely unset). Inner sources: static, watching, failing at Value (Config must fail with an error wrapping it), failing at Watch, reporting errors (must reach OnWatchedError), and updates whose reverse translation fails (alias and primary both set: the error must come back from the inner source's report call and the view must stay). A third of the watching twin runs end with a burst of three goroutines handing four prebuilt values each to the wrapper's WatchArgs at once: every config announced during the burst, and the final view, must be the view of one of those values. Transforming decoders go through the same twin comparison on JSON documents. " +
			"Blank: every SetSource/Done sequence up to length 4 over {static inner, watching inner, inner failing at Value, Done} plus seeded longer ones, against a 15-line model (delegate to the latest non-watching inner; refuse to replace a watching one; a failing SetSource keeps the previous inner; Done reaches Dials iff no watching inner is installed - observed through monitor exit; an installed watching inner's later updates are applied for as long as the Config context lives, whatever context SetSource was called with). The sequences up to length 3 are run once more with every inner source behind NewTransformingSource(random mangler list), and the seeded longer ones wrap each inner source with probability 1/2: the model is unchanged (a wrapped static source is static, a wrapped watcher a watcher, a wrapped failure a failure). A Watcher whose first value Verify refuses makes SetSource fail and is never watched: the next SetSource (static or watching) must be accepted and shown by the view. " +
			"distinct_nontrivial = distinct (mangler list, inner kind, update pattern) and (Blank sequence) signatures.",
		Assumptions: []string{"a Blank placed inside a transforming source is not generated (Blank's initial zero value is a pointer, which the transforming source does not accept: outside the statement)"},
		MinDistinct: map[string]int{"quick": 800, "thorough": 40000},
		MinCounters: map[string]map[string]int64{
			"quick":    {"twin_views_compared": 3000, "wrapped_updates_applied": 1500, "blank_sequences_run": 340, "inner_errors_propagated": 150, "reverse_failures_returned_to_inner": 60,
				"anon_flatten_values_with_hoisted_struct_unset": 200, "anon_flatten_values_with_hoisted_struct_set": 800, "blank_sequences_with_wrapped_inner_run": 200, "blank_setsource_after_a_refused_watcher": 60, "concurrent_reporter_bursts_through_a_wrapper": 100},
			"thorough": {"twin_views_compared": 600000},
		},
		Plan: func(tier string) fw.Plan {
			if tier == "thorough" {
				return fw.Plan{Shards: 16, CasesPerShard: 20000, TimeoutSec: 3000}
			}
			return fw.Plan{Shards: 8, CasesPerShard: 500, TimeoutSec: 900}
		},
		Run: runC20,
	})
}

type c20Nested struct {
	X int           `dials:"x_val"`
	D time.Duration `dials:"d_val" dialsalias:"d_alt"`
}

// C20Deep / C20Base: an embedded struct that itself has nested structs (one by pointer, one by value): what the
// anonymous-flatten mangler hoists into the parent. The types are exported so that the embedded field is.
type C20Deep struct {
	V int    `dials:"v_val"`
	Q string `dials:"q_val"`
}

type C20Base struct {
	BX   int      `dials:"bx_val"`
	Deep *C20Deep `dials:"deep"`
	Inl  C20Deep  `dials:"inl"`
}

type c20Cfg struct {
	C20Base
	A   int                 `dials:"alpha"`
	S   string              `dials:"sigma" dialsalias:"sigma_alt"`
	W   time.Duration       `dials:"wait"`
	Set map[string]struct{} `dials:"set_val"`
	L   []string            `dials:"list_val"`
	N   c20Nested           `dials:"nested"`
	U   uint16              `dials:"u_val"`
	E   []gen.Elem          `dials:"elems"`
}

var c20Spec = gen.SpecFromType(reflect.TypeOf(c20Cfg{}))

type c20Chain struct {
	c10Chain
}

func c20Chains(r *fw.Rand) c10Chain {
	tagcopy := func(to string) transform.Mangler { return &tagformat.TagCopyingMangler{SrcTag: "dials", NewTag: to} }
	switch r.Intn(10) {
	case 7:
		return c10Chain{name: "anon", anonFlat: true, typeChang: true, manglers: []transform.Mangler{transform.AnonymousFlattenMangler{}}}
	case 8:
		// the YAML decoder's chain with its flatten option
		return c10Chain{name: "yaml-anon", anonFlat: true, typeChang: true, manglers: []transform.Mangler{tagcopy("yaml"), transform.AnonymousFlattenMangler{}}}
	case 9:
		return c10Chain{name: "ez-yaml-anon", anonFlat: true, typeChang: true, manglers: []transform.Mangler{transform.NewAliasMangler("dials"), &transform.SetSliceMangler{}, tagcopy("yaml"), transform.AnonymousFlattenMangler{}}}
	case 0:
		return c10Chain{name: "none"}
	case 1:
		return c10Chain{name: "set-slice", manglers: []transform.Mangler{&transform.SetSliceMangler{}}, typeChang: true}
	case 2:
		return c10Chain{name: "duration", manglers: []transform.Mangler{parsingDur}, typeChang: true}
	case 3:
		return c10Chain{name: "reformat", manglers: []transform.Mangler{tagformat.NewTagReformattingMangler("dials", caseconversion.DecodeGoTags, caseconversion.EncodeKebabCase)}}
	case 4:
		return c10Chain{name: "ez-file", typeChang: true, manglers: []transform.Mangler{transform.NewAliasMangler("dials"), &transform.SetSliceMangler{}, parsingDur, tagcopy("json")}}
	case 5:
		return c10Chain{name: "flag", flatten: true, manglers: []transform.Mangler{transform.NewAliasMangler("dials", "dialsflag"),
			transform.NewFlattenMangler("dials", caseconversion.EncodeUpperCamelCase, caseconversion.EncodeKebabCase)}}
	}
	return c10Chain{name: "env", flatten: true, strCast: true, typeChang: true, manglers: []transform.Mangler{
		transform.NewAliasMangler("dials", "dialsenv"),
		transform.NewFlattenMangler("dials", caseconversion.EncodeUpperCamelCase, caseconversion.EncodeCasePreservingSnakeCase),
		tagformat.NewTagReformattingMangler("dials", caseconversion.DecodeGoTags, caseconversion.EncodeUpperSnakeCase),
		tagcopy("dialsenv"), &transform.StringCastingMangler{}}}
}

var errInner = errors.New("harness: inner source failure")

// c20Src is a fake inner source: it produces its current layer in whatever
// type it is asked for (the translated type when wrapped), by name.
type c20Src struct {
	ch        *c10Chain // nil: native (reference) source
	mu        sync.Mutex
	cur       *gen.Layer
	bothAlias *gen.LeafRef // fill primary and alias copy of this leaf (reverse translation must fail)
	valueErr  error
	watchErr  error
	watching  bool
	wa        dials.WatchArgs
	typ       *dials.Type
	wctx      context.Context
}

func (s *c20Src) build(t reflect.Type, l *gen.Layer, both *gen.LeafRef) (reflect.Value, error) {
	if s.ch == nil {
		return l.Materialize(t), nil
	}
	tv := reflect.New(t).Elem()
	for lr, v := range l.Vals {
		loc, err := c10Locate(tv, lr, s.ch, false)
		if err != nil {
			return reflect.Value{}, err
		}
		fwd, err := c10Forward(v, loc.Type(), lr.Leaf().Leaf)
		if err != nil {
			return reflect.Value{}, err
		}
		loc.Set(fwd)
		if both == lr {
			aloc, err := c10Locate(tv, lr, s.ch, true)
			if err != nil {
				return reflect.Value{}, err
			}
			aloc.Set(gen.CloneValue(fwd))
		}
	}
	return tv, nil
}

func (s *c20Src) Value(_ context.Context, t *dials.Type) (reflect.Value, error) {
	if s.valueErr != nil {
		return reflect.Value{}, s.valueErr
	}
	s.mu.Lock()
	l := s.cur
	s.mu.Unlock()
	return s.build(t.Type(), l, nil)
}

type c20WSrc struct{ c20Src }

func (s *c20WSrc) Watch(ctx context.Context, t *dials.Type, wa dials.WatchArgs) error {
	if s.watchErr != nil {
		return s.watchErr
	}
	s.mu.Lock()
	s.wa, s.typ, s.wctx = wa, t, ctx
	s.mu.Unlock()
	return nil
}

// report sends an update using the context the watcher was given (a watcher honours its Watch context).
func (s *c20WSrc) report(l *gen.Layer, blocking bool, both *gen.LeafRef) error {
	s.mu.Lock()
	wa, t, ctx := s.wa, s.typ, s.wctx
	s.mu.Unlock()
	if wa == nil {
		return fmt.Errorf("harness: Watch was never called")
	}
	v, err := s.build(t.Type(), l, both)
	if err != nil {
		return fmt.Errorf("harness build: %w", err)
	}
	if both == nil {
		// a real watcher's Value would return its latest state
		s.mu.Lock()
		s.cur = l
		s.mu.Unlock()
	}
	if blocking {
		return wa.BlockingReportNewValue(ctx, v)
	}
	return wa.ReportNewValue(ctx, v)
}

func c20Layer(r *fw.Rand, c *gen.Counter, ch *c10Chain, leaves []*gen.LeafRef) *gen.Layer {
	l := &gen.Layer{Vals: map[*gen.LeafRef]reflect.Value{}}
	for _, lr := range leaves {
		lf := lr.Leaf().Leaf
		if ch.strCast && (lf.Caps&gen.CapEnv == 0 || lf.Text == nil) {
			continue
		}
		if r.Chance(55) {
			l.Vals[lr] = lf.Gen(r, c.Next())
			if lf.Type.Kind() == reflect.Slice && r.Chance(20) {
				// explicitly empty: a value, not an absent one
				l.Vals[lr] = reflect.MakeSlice(lf.Type, 0, 0)
			}
		}
	}
	return l
}

// parkCtx is a context whose first Done() call parks until released: it holds a SetSource call between taking the
// Blank's decision and handing the value to Dials.
type parkCtx struct {
	context.Context
	once    sync.Once
	parked  chan struct{}
	release chan struct{}
}

func (p *parkCtx) Done() <-chan struct{} {
	p.once.Do(func() {
		close(p.parked)
		<-p.release
	})
	return p.Context.Done()
}

// c20BlankConcurrent: two SetSource calls overlap; whatever order the Blank serialises them in, afterwards the view's
// slot must hold the value of the inner source the Blank now delegates to.
func c20BlankConcurrent(w *fw.Worker, i int, r *fw.Rand) {
	leaves := c20Spec.LeafRefs()
	c := &gen.Counter{}
	native := &c10Chain{name: "none"}
	ctx, cancel := context.WithCancel(context.Background())
	defer cancel()
	blank := &sourcewrap.Blank{}
	d, err := dials.Config(ctx, &c20Cfg{A: -1, S: "dflt"}, blank)
	desc := map[string]any{"mode": "blank-concurrent-setsource"}
	if err != nil {
		w.Violation(i, "config-error-with-blank", err.Error(), desc)
		return
	}
	l1, l2 := c20Layer(r, c, native, leaves), c20Layer(r, c, native, leaves)
	first := &c20Src{cur: l1}
	var second dials.Source = &c20Src{cur: l2}
	secondWatches := r.Bool()
	if secondWatches {
		second = &c20WSrc{c20Src{cur: l2, watching: true}}
	}
	desc["second_is_watcher"] = secondWatches
	pc := &parkCtx{Context: ctx, parked: make(chan struct{}), release: make(chan struct{})}
	done1 := make(chan error, 1)
	go func() { done1 <- blank.SetSource(pc, first) }()
	select {
	case <-pc.parked:
	case <-time.After(10 * time.Second):
		w.Inconclusive(i, "first SetSource never reached its context check")
		close(pc.release)
		return
	}
	done2 := make(chan error, 1)
	go func() { done2 <- blank.SetSource(ctx, second) }()
	// give the second call the chance to overtake (it cannot while the first holds the Blank's lock)
	var err2 error
	got2 := false
	select {
	case err2 = <-done2:
		got2 = true
	case <-time.After(30 * time.Millisecond):
	}
	close(pc.release)
	err1 := <-done1
	if !got2 {
		err2 = <-done2
	}
	if err1 != nil || err2 != nil {
		w.Violation(i, "blank-concurrent-setsource-failed", fmt.Sprintf("errors: %v / %v", err1, err2), desc)
		return
	}
	v, verr := blank.Value(ctx, dials.NewType(innerTypeOf(d)))
	if verr != nil {
		w.Violation(i, "blank-value-does-not-delegate", verr.Error(), desc)
		return
	}
	res, cerr := dials.VerifCompose(&c20Cfg{A: -1, S: "dflt"}, []reflect.Value{v})
	if cerr != nil {
		w.Note("compose of blank value failed: " + cerr.Error())
		return
	}
	w.Count("twin_views_compared", 1)
	w.Count("blank_concurrent_setsource_cases", 1)
	if df := gen.Diff(reflect.ValueOf(res).Elem(), reflect.ValueOf(*d.View())); df != "" {
		w.Violation(i, "blank-view-and-inner-disagree-after-concurrent-setsource", fmt.Sprintf("the view does not show the value of the inner source the Blank delegates to (second call overtook the first: %v): %s", got2, df), desc)
		return
	}
	w.Distinct(fmt.Sprintf("blank-concurrent|%v|%v", secondWatches, got2))
}

// c20BlankDoneVsSetSource: Done overlaps SetSource(watcher). Whatever order the Blank serialises them in, a SetSource
// that returned nil has handed the watch slot to the watcher: its later reports must still be installed.
func c20BlankDoneVsSetSource(w *fw.Worker, i int, r *fw.Rand) {
	leaves := c20Spec.LeafRefs()
	c := &gen.Counter{}
	native := &c10Chain{name: "none"}
	ctx, cancel := context.WithCancel(context.Background())
	defer cancel()
	blank := &sourcewrap.Blank{}
	d, err := dials.Config(ctx, &c20Cfg{A: -1, S: "dflt"}, blank)
	desc := map[string]any{"mode": "blank-done-overlapping-setsource"}
	if err != nil {
		w.Violation(i, "config-error-with-blank", err.Error(), desc)
		return
	}
	l1 := c20Layer(r, c, native, leaves)
	watcher := &c20WSrc{c20Src{cur: l1, watching: true}}
	pc := &parkCtx{Context: ctx, parked: make(chan struct{}), release: make(chan struct{})}
	doneRet := make(chan struct{})
	go func() { blank.Done(pc); close(doneRet) }()
	select {
	case <-pc.parked:
	case <-time.After(10 * time.Second):
		close(pc.release)
		w.Inconclusive(i, "Blank.Done never reached its context check")
		return
	}
	// bounded: once Done has given the slot up, nobody receives the SetSource report any more
	sctx, scancel := context.WithTimeout(ctx, 400*time.Millisecond)
	defer scancel()
	setRet := make(chan error, 1)
	go func() { setRet <- blank.SetSource(sctx, watcher) }()
	var errSet error
	got := false
	select {
	case errSet = <-setRet:
		got = true
	case <-time.After(30 * time.Millisecond):
	}
	close(pc.release)
	<-doneRet
	if !got {
		select {
		case errSet = <-setRet:
		case <-time.After(10 * time.Second):
			w.Inconclusive(i, "SetSource did not return after Done was released")
			return
		}
	}
	desc["setsource_overtook_done"] = got
	w.Count("blank_done_vs_setsource_cases", 1)
	if errSet != nil {
		// Done won: the slot was given up before the watcher could take it
		w.Distinct(fmt.Sprintf("blank-done-race|refused|%v", got))
		return
	}
	l2 := c20Layer(r, c, native, leaves)
	watcher.mu.Lock()
	watcher.wctx = ctx // not the bounded context SetSource was called with
	watcher.mu.Unlock()
	rep := make(chan error, 1)
	go func() { rep <- watcher.report(l2, true, nil) }()
	var errRep error
	select {
	case errRep = <-rep:
	case <-time.After(10 * time.Second):
		// not a verdict by itself: the report is stuck if nobody is going to take it - the monitor gone, or parked in
		// its own select, in two dumps 300ms apart while the report is still pending
		s1, _ := monitorState()
		time.Sleep(300 * time.Millisecond)
		s2, _ := monitorState()
		select {
		case errRep = <-rep:
		default:
			if s1 == s2 && (s1 == "gone" || s1 == "idle") {
				errRep = fmt.Errorf("still blocked after 10s, the monitor goroutine being %s in two dumps", s1)
			} else {
				w.Inconclusive(i, fmt.Sprintf("the watcher's report has not returned after 10s; monitor state %s/%s", s1, s2))
				return
			}
		}
	}
	if errRep != nil {
		w.Violation(i, "watcher-cut-off-after-successful-setsource", fmt.Sprintf("SetSource(watcher) returned nil, but the watcher's next blocking report failed: %v", errRep), desc)
		return
	}
	res, cerr := dials.VerifCompose(&c20Cfg{A: -1, S: "dflt"}, []reflect.Value{l2.Materialize(innerTypeOf(d))})
	if cerr == nil {
		w.Count("twin_views_compared", 1)
		if df := gen.Diff(reflect.ValueOf(res).Elem(), reflect.ValueOf(*d.View())); df != "" {
			w.Violation(i, "watcher-update-lost-after-successful-setsource", df, desc)
			return
		}
	}
	w.Distinct(fmt.Sprintf("blank-done-race|accepted|%v", got))
}

// c20EagerWSrc is a watcher that starts reporting as soon as its Watch method is entered (a resync goroutine), while
// Watch itself takes a little longer to return.
type c20EagerWSrc struct {
	c20WSrc
	next     *gen.Layer
	reported chan error
}

func (s *c20EagerWSrc) Watch(ctx context.Context, t *dials.Type, wa dials.WatchArgs) error {
	s.c20WSrc.Watch(ctx, t, wa)
	go func() { s.reported <- s.report(s.next, true, nil) }()
	time.Sleep(20 * time.Millisecond)
	return nil
}

// c20BlankEagerWatcher: the value a watching inner source had when it was set must not overwrite what that watcher
// reports once it is being watched - exactly as for a watcher given to Config directly.
func c20BlankEagerWatcher(w *fw.Worker, i int, r *fw.Rand) {
	leaves := c20Spec.LeafRefs()
	c := &gen.Counter{}
	native := &c10Chain{name: "none"}
	desc := map[string]any{"mode": "blank-inner-watcher-reports-from-watch"}
	ctx, cancel := context.WithCancel(context.Background())
	defer cancel()
	blank := &sourcewrap.Blank{}
	d, err := dials.Config(ctx, &c20Cfg{A: -1, S: "dflt"}, blank)
	if err != nil {
		w.Violation(i, "config-error-with-blank", err.Error(), desc)
		return
	}
	l1, l2 := c20Layer(r, c, native, leaves), c20Layer(r, c, native, leaves)
	ws := &c20EagerWSrc{c20WSrc: c20WSrc{c20Src{cur: l1, watching: true}}, next: l2, reported: make(chan error, 1)}
	if serr := blank.SetSource(ctx, ws); serr != nil {
		w.Violation(i, "blank-setsource-failed", serr.Error(), desc)
		return
	}
	select {
	case rerr := <-ws.reported:
		if rerr != nil {
			w.Violation(i, "update-error-through-blank", rerr.Error(), desc)
			return
		}
	case <-time.After(10 * time.Second):
		w.Inconclusive(i, "the inner watcher's report did not return")
		return
	}
	res, cerr := dials.VerifCompose(&c20Cfg{A: -1, S: "dflt"}, []reflect.Value{l2.Materialize(innerTypeOf(d))})
	if cerr != nil {
		return
	}
	w.Count("twin_views_compared", 1)
	w.Count("blank_eager_watcher_cases", 1)
	if df := gen.Diff(reflect.ValueOf(res).Elem(), reflect.ValueOf(*d.View())); df != "" {
		w.Violation(i, "inner-watchers-update-overwritten-by-its-older-initial-value", "the view does not show what the inner watcher reported after it was set: "+df, desc)
		return
	}
	w.Distinct("blank-eager-watcher")
}

// c20BlankAbandoned: a SetSource whose caller gives up while the monitor is inside Verify for its value. The monitor
// finishes that update; the Blank (and the monitor) must stay usable: the next SetSource is installed.
func c20BlankAbandoned(w *fw.Worker, i int, r *fw.Rand) {
	desc := map[string]any{"mode": "blank-setsource-abandoned-inside-verify"}
	w.BeginDesc(i, "blank-abandoned")
	c, err := c07Start(r, true, conc.Opts{NSrc: 2})
	if err != nil {
		w.Violation(i, "config-failed", err.Error(), desc)
		return
	}
	e := c.e
	defer e.Stop()
	l1, l2 := e.RandLayer(r, 0, 0), e.RandLayer(r, 0, 0)
	abandoned, _ := e.AbandonFnInVerify(func(ctx context.Context) error {
		return c.blank.SetSource(ctx, &conc.Src{Name: "inner-1", Init: l1})
	})
	if !abandoned {
		w.Inconclusive(i, "Verify was not reached for the first SetSource")
		return
	}
	w.Count("blank_setsource_abandoned_inside_verify", 1)
	ctx2, cancel := context.WithTimeout(e.S.Ctx, 5*time.Second)
	defer cancel()
	ret := make(chan error, 1)
	go func() { ret <- c.blank.SetSource(ctx2, &conc.Src{Name: "inner-2", Init: l2}) }()
	var serr error
	select {
	case serr = <-ret:
	case <-time.After(10 * time.Second):
		stuckVerdict(w, i, "Blank.SetSource after an abandoned SetSource", desc)
		return
	}
	if serr != nil {
		if errors.Is(serr, context.DeadlineExceeded) {
			stuckVerdict(w, i, "Blank.SetSource (5s context) after an abandoned SetSource", desc)
			return
		}
		w.Violation(i, "blank-setsource-failed-after-an-abandoned-one", serr.Error(), desc)
		return
	}
	want := l2.Apply(conc.DefaultsFP())
	if got := conc.FPOf(e.D.View()); got != want {
		w.Violation(i, "view-not-the-last-setsource-after-an-abandoned-one", fmt.Sprintf("view %+v, want %+v", got, want), desc)
		return
	}
	w.Distinct("blank-abandoned")
}

// c20BlankRefusedWatcher: SetSource with a Watcher whose first value Verify refuses fails, and that Watcher's Watch is
// never called: it is not a watching inner source. The Blank still owns its slot, so the next SetSource (static or
// watching) must be accepted and shown by the view. (Before /repo commit 356966c the Blank refused it with "disallowed
// attempt to replace Watcher Source" and its Done became a no-op; C08 judges the shutdown side.)
func c20BlankRefusedWatcher(w *fw.Worker, i int, r *fw.Rand) {
	desc := map[string]any{"mode": "blank-watcher-whose-first-value-is-refused"}
	w.BeginDesc(i, "blank-refused-watcher")
	c, err := c07Start(r, true, conc.Opts{NSrc: 2})
	if err != nil {
		w.Violation(i, "config-failed", err.Error(), desc)
		return
	}
	e := c.e
	defer e.Stop()
	ctx, cancel := context.WithTimeout(e.S.Ctx, 30*time.Second) // watchdog only
	defer cancel()
	bad := e.NewLayer()
	bad.Set[0], bad.NegA = true, true
	w1 := &conc.WSrc{Src: conc.Src{Name: "watcher-with-refused-first-value", Init: bad}}
	serr := c.blank.SetSource(ctx, w1)
	if ctx.Err() != nil {
		w.Inconclusive(i, "SetSource(watcher with a refused first value) took more than 30s")
		return
	}
	if serr == nil {
		w.Violation(i, "blank-setsource-error-not-propagated:first-value-refused", "SetSource returned nil for a Watcher whose first value fails Verify (verification is on)", desc)
		return
	}
	if w1.WA() != nil {
		// the Blank started the watcher although it reported failure: then the slot is the watcher's; not judged here
		w.Count("blank_refused_watcher_was_started_anyway", 1)
		return
	}
	l2 := e.RandLayer(r, 0, 0)
	secondWatches := r.Bool()
	var second dials.Source = &conc.Src{Name: "static-after-refused-watcher", Init: l2}
	if secondWatches {
		second = &conc.WSrc{Src: conc.Src{Name: "watcher-after-refused-watcher", Init: l2}}
	}
	desc["second_is_watcher"] = secondWatches
	serr2 := c.blank.SetSource(ctx, second)
	if ctx.Err() != nil {
		w.Inconclusive(i, "SetSource after the refused watcher took more than 30s")
		return
	}
	w.Count("blank_setsource_after_a_refused_watcher", 1)
	if serr2 != nil {
		w.Violation(i, "blank-refused-to-replace-a-watcher-that-never-watched", fmt.Sprintf("first SetSource(watcher) failed (%v) and the watcher's Watch was never called, yet the next SetSource is refused: %v", serr, serr2), desc)
		return
	}
	want := l2.Apply(conc.DefaultsFP())
	if got := conc.FPOf(e.D.View()); got != want {
		w.Violation(i, "view-not-the-last-setsource-after-a-refused-watcher", fmt.Sprintf("view %+v, want %+v", got, want), desc)
		return
	}
	w.Distinct(fmt.Sprintf("blank-refused-watcher|%v", secondWatches))
}

// c20BlankReuse: a Blank that served one Dials (and was given a watching inner source) is handed to a second Config
// after the first was shut down. The second Config may refuse it; if it accepts it, the wrapped watcher's updates must
// reach the second config like a native watcher's would.
func c20BlankReuse(w *fw.Worker, i int, r *fw.Rand) {
	leaves := c20Spec.LeafRefs()
	c := &gen.Counter{}
	native := &c10Chain{name: "none"}
	desc := map[string]any{"mode": "blank-reused-after-shutdown"}
	ctx1, cancel1 := context.WithCancel(context.Background())
	blank := &sourcewrap.Blank{}
	d1, err := dials.Config(ctx1, &c20Cfg{A: -1, S: "dflt"}, blank)
	if err != nil {
		cancel1()
		w.Violation(i, "config-error-with-blank", err.Error(), desc)
		return
	}
	l1 := c20Layer(r, c, native, leaves)
	watcher := &c20WSrc{c20Src{cur: l1, watching: true}}
	if serr := blank.SetSource(ctx1, watcher); serr != nil {
		cancel1()
		w.Violation(i, "blank-setsource-failed", serr.Error(), desc)
		return
	}
	cancel1()
	select {
	case <-dials.VerifMonitorDone(d1):
	case <-time.After(10 * time.Second):
		w.Inconclusive(i, "first monitor exit not observed")
		return
	}
	ctx2, cancel2 := context.WithCancel(context.Background())
	defer cancel2()
	d2, err2 := dials.Config(ctx2, &c20Cfg{A: -1, S: "dflt"}, blank)
	w.Count("blank_reuse_cases", 1)
	if err2 != nil {
		w.Distinct("blank-reuse|refused")
		return
	}
	// accepted: the watcher lives on inside the Blank, so its next update belongs to the second config
	l2 := c20Layer(r, c, native, leaves)
	watcher.mu.Lock()
	watcher.wctx = ctx2
	watcher.mu.Unlock()
	rep := make(chan error, 1)
	go func() { rep <- watcher.report(l2, true, nil) }()
	var rerr error
	select {
	case rerr = <-rep:
	case <-time.After(5 * time.Second):
		rerr = fmt.Errorf("still blocked after 5s")
	}
	res, cerr := dials.VerifCompose(&c20Cfg{A: -1, S: "dflt"}, []reflect.Value{l2.Materialize(innerTypeOf(d2))})
	if cerr != nil {
		return
	}
	if df := gen.Diff(reflect.ValueOf(res).Elem(), reflect.ValueOf(*d2.View())); df != "" {
		w.Violation(i, "update-from-inner-watcher-lost-after-blank-reuse", fmt.Sprintf("the second Config accepted the Blank, but the inner watcher's update (report error: %v) never reached it: %s", rerr, df), desc)
		return
	}
	w.Distinct("blank-reuse|accepted")
}

func runC20(w *fw.Worker) {
	// the exhaustive Blank sequences are distributed over the shards
	seqs := c20BlankSeqs(4)
	// ... and once more, up to length 3, with every inner source behind a transforming source
	seqsWrapped := c20BlankSeqs(3)
	w.Cases(func(i int, r *fw.Rand) {
		g := i*w.Shards + w.Shard
		switch {
		case g < len(seqs):
			c20Blank(w, i, r, seqs[g], 0)
		case g < len(seqs)+len(seqsWrapped):
			c20Blank(w, i, r, seqsWrapped[g-len(seqs)], 100)
		case i%6 == 5:
			n := r.Range(3, 8)
			seq := make([]byte, n)
			for k := range seq {
				seq[k] = "swfd"[r.Intn(4)]
			}
			c20Blank(w, i, r, string(seq), 50)
		case i%6 == 4:
			c20Decoder(w, i, r)
		case i%6 == 3 && i%4 == 1:
			c20BlankConcurrent(w, i, r)
		case i%24 == 15:
			c20BlankDoneVsSetSource(w, i, r)
		case i%24 == 13:
			c20BlankReuse(w, i, r)
		case i%24 == 19:
			c20BlankEagerWatcher(w, i, r)
		case i%24 == 1:
			c20BlankAbandoned(w, i, r)
		case i%24 == 3:
			c20BlankRefusedWatcher(w, i, r)
		case i%24 == 7:
			// a Done that expired undelivered does not use up the Blank's right (and duty) to forward the next one
			blankDoneRetry(w, i, r, "C20")
		default:
			c20Twin(w, i, r)
		}
	})
}

type c20Log struct {
	mu   sync.Mutex
	errs []string
}

// c20CountHoisted counts the values (under an anonymous-flatten chain) that leave a nested struct of the embedded
// struct entirely unset resp. set: both shapes of a hoisted field must occur.
func c20CountHoisted(w *fw.Worker, ch *c10Chain, l *gen.Layer, leaves []*gen.LeafRef) {
	if !ch.anonFlat {
		return
	}
	set := map[string]bool{}
	for lr := range l.Vals {
		if len(lr.Path) == 3 && lr.Path[0].IsEmbedded() {
			set[lr.Path[1].Name] = true
		}
	}
	for _, n := range []string{"Deep", "Inl"} {
		if set[n] {
			w.Count("anon_flatten_values_with_hoisted_struct_set", 1)
		} else {
			w.Count("anon_flatten_values_with_hoisted_struct_unset", 1)
		}
	}
}

func c20Twin(w *fw.Worker, i int, r *fw.Rand) {
	ch := c20Chains(r)
	leaves := c20Spec.LeafRefs()
	c := &gen.Counter{}
	kind := []string{"watching", "watching", "watching", "static", "value-error", "watch-error"}[r.Intn(6)]
	desc := map[string]any{"manglers": ch.name, "inner": kind}
	ctx, cancel := context.WithCancel(context.Background())
	defer cancel()
	init := c20Layer(r, c, &ch, leaves)
	c20CountHoisted(w, &ch, init, leaves)
	innerW := &c20WSrc{c20Src{ch: &ch, cur: init, watching: true}}
	refW := &c20WSrc{c20Src{cur: init, watching: true}}
	var inner, ref dials.Source = innerW, refW
	switch kind {
	case "static":
		inner, ref = &innerW.c20Src, &refW.c20Src
	case "value-error":
		innerW.valueErr = errInner
	case "watch-error":
		innerW.watchErr = errInner
	}
	wrapped := sourcewrap.NewTransformingSource(inner, ch.manglers...)
	var elog c20Log
	params := dials.Params[c20Cfg]{OnWatchedError: func(_ context.Context, err error, _, _ *c20Cfg) {
		elog.mu.Lock()
		elog.errs = append(elog.errs, err.Error())
		elog.mu.Unlock()
	}}
	dw, errW := params.Config(ctx, &c20Cfg{A: -1, S: "dflt"}, wrapped)
	if kind == "value-error" || kind == "watch-error" {
		if errW == nil {
			w.Violation(i, "inner-error-swallowed:"+kind, "Config succeeded although the wrapped inner source failed", desc)
			return
		}
		if !errors.Is(errW, errInner) {
			w.Violation(i, "inner-error-not-wrapped:"+kind, errW.Error(), desc)
			return
		}
		w.Count("inner_errors_propagated", 1)
		w.Distinct(ch.name + "|" + kind)
		return
	}
	if errW != nil {
		w.Violation(i, "config-error-through-wrapper:"+ch.name, errW.Error(), desc)
		return
	}
	dr, errR := dials.Config(ctx, &c20Cfg{A: -1, S: "dflt"}, ref)
	if errR != nil {
		w.Note("reference Config failed: " + errR.Error())
		return
	}
	cmp := func(when string) bool {
		w.Count("twin_views_compared", 1)
		if d := gen.Diff(reflect.ValueOf(*dr.View()), reflect.ValueOf(*dw.View())); d != "" {
			w.Violation(i, "wrapped-view-differs:"+ch.name+":"+strings.SplitN(when, " ", 2)[0], fmt.Sprintf("%s: reference vs wrapped at %s", when, d), desc)
			return false
		}
		return true
	}
	if !cmp("initial value") {
		return
	}
	var pat strings.Builder
	if kind == "watching" {
		n := r.Range(1, 10)
		for k := 0; k < n; k++ {
			l := c20Layer(r, c, &ch, leaves)
			c20CountHoisted(w, &ch, l, leaves)
			op := r.Intn(10)
			switch {
			case op == 0:
				// inner reports an error: must reach OnWatchedError through the wrapper
				before := len(elog.errs)
				innerW.mu.Lock()
				wa, wctx := innerW.wa, innerW.wctx
				innerW.mu.Unlock()
				wa.ReportError(wctx, errInner)
				// fence through the monitor and the callback goroutine
				innerW.report(l, true, nil)
				refW.report(l, true, nil)
				if u := dw.RegisterCallback(ctx, dials.CfgSerial[c20Cfg]{}, func(context.Context, *c20Cfg, *c20Cfg) {}); u != nil {
					u(ctx)
				}
				elog.mu.Lock()
				got := len(elog.errs) > before && strings.Contains(strings.Join(elog.errs[before:], "|"), errInner.Error())
				elog.mu.Unlock()
				if !got {
					w.Violation(i, "inner-reported-error-swallowed:"+ch.name, "ReportError through the wrapper never reached OnWatchedError", desc)
					return
				}
				w.Count("inner_errors_propagated", 1)
				pat.WriteByte('e')
			case op == 1 && strings.HasPrefix(ch.name, "ez-") || op == 1 && ch.name == "flag" || op == 1 && ch.name == "env":
				// an update whose reverse translation fails: alias and primary both set
				var both *gen.LeafRef
				for _, lr := range leaves {
					if _, ok := lr.Leaf().Tags["dials"]; ok && (lr.Leaf().Name == "S" || lr.Leaf().Name == "D") {
						if _, set := l.Vals[lr]; set {
							both = lr
						}
					}
				}
				if both == nil {
					continue
				}
				before := gen.CloneValue(reflect.ValueOf(*dw.View()))
				err := innerW.report(l, true, both)
				if err == nil {
					w.Violation(i, "reverse-translation-failure-swallowed:"+ch.name, fmt.Sprintf("update with alias and primary of %s both set was accepted", both), desc)
					return
				}
				if strings.HasPrefix(err.Error(), "harness") {
					w.Note(err.Error())
					continue
				}
				if d := gen.Diff(before, reflect.ValueOf(*dw.View())); d != "" {
					w.Violation(i, "view-changed-by-failed-update:"+ch.name, d, desc)
					return
				}
				w.Count("reverse_failures_returned_to_inner", 1)
				pat.WriteByte('x')
				continue
			default:
				blocking := r.Chance(70)
				errI := innerW.report(l, blocking, nil)
				errRf := refW.report(l, true, nil)
				if !blocking {
					// fence the wrapped instance with a blocking no-change report of the same layer
					errI = innerW.report(l, true, nil)
				}
				if errI != nil || errRf != nil {
					if errI != nil && strings.HasPrefix(errI.Error(), "harness") {
						w.Note(errI.Error())
						return
					}
					w.Violation(i, "update-error-through-wrapper:"+ch.name, fmt.Sprintf("wrapped: %v reference: %v", errI, errRf), desc)
					return
				}
				w.Count("wrapped_updates_applied", 1)
				pat.WriteByte('u')
			}
			if !cmp(fmt.Sprintf("update %d", k)) {
				return
			}
		}
	}
	if kind == "watching" && r.Chance(35) {
		// A watcher with several reporting goroutines (one per watched path, say): every value must arrive reverse-
		// translated as itself. The values are built beforehand; the goroutines only hand them over. Every config the
		// wrapped Dials announces, and its final view, must be the view of ONE of the reported values.
		const G, K = 3, 4
		innerW.mu.Lock()
		wa, wt, wctx := innerW.wa, innerW.typ, innerW.wctx
		innerW.mu.Unlock()
		var vals [G][K]reflect.Value
		// (the announcement of the last install before the burst may still be on its way to the callback goroutine when
		// the callback below registers: that config is a legitimate first call)
		cands := []reflect.Value{gen.CloneValue(reflect.ValueOf(*dw.View()))}
		for g := 0; g < G; g++ {
			for k := 0; k < K; k++ {
				l := c20Layer(r, c, &ch, leaves)
				v, berr := innerW.build(wt.Type(), l, nil)
				if berr != nil {
					w.Note("harness build: " + berr.Error())
					return
				}
				vals[g][k] = v
				if rerr := refW.report(l, true, nil); rerr != nil {
					w.Note("reference report failed: " + rerr.Error())
					return
				}
				cands = append(cands, gen.CloneValue(reflect.ValueOf(*dr.View())))
			}
		}
		matches := func(v reflect.Value) bool {
			for _, cd := range cands {
				if gen.Diff(cd, v) == "" {
					return true
				}
			}
			return false
		}
		var seenMu sync.Mutex
		var seen []reflect.Value
		unreg := dw.RegisterCallback(ctx, dials.CfgSerial[c20Cfg]{}, func(_ context.Context, _, nw *c20Cfg) {
			seenMu.Lock()
			seen = append(seen, gen.CloneValue(reflect.ValueOf(*nw)))
			seenMu.Unlock()
		})
		var wg sync.WaitGroup
		errs := make([]error, G)
		for g := 0; g < G; g++ {
			wg.Add(1)
			go func(g int) {
				defer wg.Done()
				for k := 0; k < K; k++ {
					if e := wa.BlockingReportNewValue(wctx, vals[g][k]); e != nil {
						errs[g] = e
						return
					}
				}
			}(g)
		}
		wg.Wait()
		if unreg != nil {
			unreg(ctx) // the callback goroutine has run everything queued before this
		}
		for g, e := range errs {
			if e != nil {
				w.Violation(i, "update-error-through-wrapper:"+ch.name+":concurrent-reporters", fmt.Sprintf("reporter %d: %v", g, e), desc)
				return
			}
		}
		w.Count("concurrent_reporter_bursts_through_a_wrapper", 1)
		seenMu.Lock()
		all := append(append([]reflect.Value{}, seen...), gen.CloneValue(reflect.ValueOf(*dw.View())))
		seenMu.Unlock()
		for n, v := range all {
			w.Count("configs_checked_against_the_concurrently_reported_values", 1)
			if !matches(v) {
				what := "a config announced to a callback"
				if n == len(all)-1 {
					what = "the final view"
				}
				w.Violation(i, "wrapped-view-is-none-of-the-reported-values:"+ch.name, fmt.Sprintf("%s after %d reporters handed over %d values each through the wrapper equals the view of none of them (closest diff to the last one: %s)", what, G, K, gen.Diff(cands[len(cands)-1], v)), desc)
				return
			}
		}
		// bring the twins back in step for what follows
		l := c20Layer(r, c, &ch, leaves)
		if e1, e2 := innerW.report(l, true, nil), refW.report(l, true, nil); e1 != nil || e2 != nil {
			w.Note(fmt.Sprintf("resync report failed: %v / %v", e1, e2))
			return
		}
		if !cmp("resync after the concurrent reporters") {
			return
		}
		pat.WriteByte('c')
	}
	if kind == "watching" && r.Bool() {
		// after shutdown a report cannot be delivered: the watcher must be told so (it may retry elsewhere), wrapped or not
		cancel()
		for _, done := range []<-chan struct{}{dials.VerifMonitorDone(dw), dials.VerifMonitorDone(dr)} {
			select {
			case <-done:
			case <-time.After(10 * time.Second):
				w.Inconclusive(i, "monitor exit not observed after cancelling the Config context")
				return
			}
		}
		l := c20Layer(r, c, &ch, leaves)
		blocking := r.Bool()
		errRf := refW.report(l, blocking, nil)
		errI := innerW.report(l, blocking, nil)
		w.Count("reports_after_shutdown_compared", 1)
		switch {
		case errI != nil && strings.HasPrefix(errI.Error(), "harness"):
			w.Note(errI.Error())
		case (errRf != nil) != (errI != nil):
			w.Violation(i, "undeliverable-report-outcome-differs-through-wrapper:"+ch.name, fmt.Sprintf("report (blocking=%v) after shutdown: native source got %v, wrapped source got %v", blocking, errRf, errI), desc)
			return
		case errRf != nil && errors.Is(errRf, context.Canceled) && !errors.Is(errI, context.Canceled):
			w.Violation(i, "context-error-not-reachable-through-wrapper:"+ch.name, fmt.Sprintf("native: %v; wrapped: %v", errRf, errI), desc)
			return
		}
		pat.WriteString("|late")
	}
	w.Distinct(ch.name + "|" + kind + "|" + pat.String())
	if i%61 == 0 {
		w.Sample(map[string]any{"case": desc, "pattern": pat.String(), "final_view": fmt.Sprintf("%+v", *dw.View())})
	}
}

// c20Decoder: NewTransformingDecoder twin: a JSON document through (alias, set-slice)-wrapped decoder vs the expected layer.
func c20Decoder(w *fw.Worker, i int, r *fw.Rand) {
	uniq := r.Range(1, 1000)
	useAlias := r.Bool()
	sKey := "sigma"
	if useAlias {
		sKey = "sigma_alt"
	}
	doc := fmt.Sprintf(`{"alpha": %d, %q: "s%d", "wait": "%ds", "set_val": ["a%d", "b"], "nested": {"x_val": %d}}`, uniq, sKey, uniq, uniq, uniq, uniq+1)
	want := c20Cfg{A: uniq, S: fmt.Sprintf("s%d", uniq), W: time.Duration(uniq) * time.Second, Set: map[string]struct{}{fmt.Sprintf("a%d", uniq): {}, "b": {}}, N: c20Nested{X: uniq + 1}, U: 9}
	dec := sourcewrap.NewTransformingDecoder(&jsondec.Decoder{}, transform.NewAliasMangler("dials"), &transform.SetSliceMangler{})
	d, err := dials.Config(context.Background(), &c20Cfg{U: 9}, &static.StringSource{Data: doc, Decoder: dec})
	desc := map[string]any{"mode": "transforming-decoder", "document": doc}
	if err != nil {
		w.Violation(i, "config-error-through-transforming-decoder", err.Error(), desc)
		return
	}
	w.Count("twin_views_compared", 1)
	if df := gen.Diff(reflect.ValueOf(want), reflect.ValueOf(*d.View())); df != "" {
		w.Violation(i, "transforming-decoder-view-differs", df, desc)
		return
	}
	// the same decoder instance serves a second, different config type (a process with two Dials instances)
	type other struct {
		Alpha string              `dials:"alpha"`
		Extra map[string]struct{} `dials:"extra"`
		Wait  time.Duration       `dials:"wait"`
	}
	d2, err2 := dials.Config(context.Background(), &other{}, &static.StringSource{Data: fmt.Sprintf(`{"alpha": "x%d", "extra": ["e"], "wait": %d}`, uniq, uniq), Decoder: dec})
	if err2 != nil {
		w.Violation(i, "config-error-through-reused-transforming-decoder", err2.Error(), desc)
		return
	}
	wantO := other{Alpha: fmt.Sprintf("x%d", uniq), Extra: map[string]struct{}{"e": {}}, Wait: time.Duration(uniq)}
	w.Count("twin_views_compared", 1)
	if df := gen.Diff(reflect.ValueOf(wantO), reflect.ValueOf(*d2.View())); df != "" {
		w.Violation(i, "transforming-decoder-reused-for-second-type-differs", df, desc)
		return
	}
	// errors are propagated: malformed document, and alias+primary both present
	for _, bad := range []string{`{"alpha": `, `{"sigma": "a", "sigma_alt": "b"}`} {
		if _, err := dials.Config(context.Background(), &c20Cfg{}, &static.StringSource{Data: bad, Decoder: dec}); err == nil {
			w.Violation(i, "transforming-decoder-error-swallowed", fmt.Sprintf("document %q accepted", bad), desc)
			return
		}
		w.Count("inner_errors_propagated", 1)
	}
	w.Distinct(fmt.Sprintf("decoder|%v|%d", useAlias, uniq%50))
}

// ---- Blank

func c20BlankSeqs(maxLen int) []string {
	var out []string
	var rec func(prefix string)
	rec = func(prefix string) {
		if len(prefix) > 0 {
			out = append(out, prefix)
		}
		if len(prefix) == maxLen {
			return
		}
		for _, c := range "swfd" {
			rec(prefix + string(c))
		}
	}
	rec("")
	return out
}

// c20Blank plays one sequence: s = SetSource(static) w = SetSource(watching) f = SetSource(failing at Value) d = Done.
// With wrapPct > 0 each inner source is, with that probability, put behind sourcewrap.NewTransformingSource with a random
// mangler list (the fake then produces the translated type): wrapping is transparent, so the model is the same -
// a wrapped static source is a static one, a wrapped watcher a watcher, a wrapped failure a failure.
func c20Blank(w *fw.Worker, i int, r *fw.Rand, seq string, wrapPct int) {
	leaves := c20Spec.LeafRefs()
	c := &gen.Counter{}
	native := &c10Chain{name: "none"}
	ctx, cancel := context.WithCancel(context.Background())
	defer cancel()
	blank := &sourcewrap.Blank{}
	withOther := r.Chance(30) // another watcher keeps the monitor alive regardless of the Blank
	var other *c20WSrc
	srcs := []dials.Source{blank}
	if withOther {
		other = &c20WSrc{c20Src{cur: &gen.Layer{Vals: map[*gen.LeafRef]reflect.Value{}}, watching: true}}
		srcs = append(srcs, other)
	}
	d, err := dials.Config(ctx, &c20Cfg{A: -1, S: "dflt"}, srcs...)
	desc := map[string]any{"mode": "blank", "sequence": seq, "other_watcher": withOther}
	if err != nil {
		w.Violation(i, "config-error-with-blank", err.Error(), desc)
		return
	}
	wrappedSteps := make([]string, len(seq))
	desc["wrapped_with"] = wrappedSteps
	anyWrapped := false
	// key: failures of histories with a wrapped inner source are a class of their own
	key := func(k string) string {
		if anyWrapped {
			return k + ":inner-behind-transforming-source"
		}
		return k
	}
	done := dials.VerifMonitorDone(d)
	// model
	var modelInner *gen.Layer // latest successfully installed inner's layer
	var watcher *c20WSrc      // installed watching inner (owns the slot)
	doneForwarded := false
	expectView := func() reflect.Value {
		ls := []*gen.Layer{}
		if modelInner != nil {
			ls = append(ls, modelInner)
		}
		return gen.ReferenceStack(reflect.ValueOf(c20Cfg{A: -1, S: "dflt"}), ls)
	}
	for k, op := range seq {
		stepCh := native
		var wrapCh *c10Chain
		if op != 'd' && r.Chance(wrapPct) {
			cc := c20Chains(r)
			stepCh, wrapCh = &cc, &cc
			wrappedSteps[k] = cc.name
			anyWrapped = true
			w.Count("blank_inner_sources_wrapped", 1)
		}
		l := c20Layer(r, c, stepCh, leaves)
		// each call gets its own short-lived context that ends right after the call
		// (bounded: once the monitor is gone a SetSource legitimately blocks until its context ends)
		cctx, ccancel := context.WithTimeout(ctx, 3*time.Second)
		if doneForwarded && !withOther {
			ccancel()
			cctx, ccancel = context.WithTimeout(ctx, 30*time.Millisecond)
		}
		defer ccancel()
		switch op {
		case 's', 'w', 'f':
			var src dials.Source
			st := &c20Src{cur: l, ch: wrapCh}
			var ws *c20WSrc
			switch op {
			case 's':
				src = st
			case 'w':
				ws = &c20WSrc{c20Src{cur: l, watching: true, ch: wrapCh}}
				src = ws
			case 'f':
				st.valueErr = errInner
				src = st
			}
			if wrapCh != nil {
				src = sourcewrap.NewTransformingSource(src, wrapCh.manglers...)
			}
			err := blank.SetSource(cctx, src)
			ccancel()
			switch {
			case doneForwarded && !withOther:
				// the monitor is gone: the call must fail (C08 judges how); the Blank's own state is not judged further
				if err == nil {
					w.Violation(i, key("blank-setsource-succeeded-after-done"), fmt.Sprintf("step %d (%c)", k, op), desc)
					return
				}
				w.Count("blank_sequences_run", 1)
				return
			case watcher != nil:
				if err == nil {
					w.Violation(i, key("blank-replaced-a-watching-inner"), fmt.Sprintf("step %d (%c): SetSource succeeded although a watching inner source is installed", k, op), desc)
					return
				}
			case op == 'f':
				if err == nil || !errors.Is(err, errInner) {
					w.Violation(i, key("blank-setsource-error-not-propagated"), fmt.Sprintf("step %d: %v", k, err), desc)
					return
				}
				w.Count("inner_errors_propagated", 1)
			default:
				if doneForwarded {
					// Done was forwarded while another watcher keeps the monitor alive: updates are still applied by dials
				}
				if err != nil {
					w.Violation(i, key("blank-setsource-failed"), fmt.Sprintf("step %d (%c): %v", k, op, err), desc)
					return
				}
				modelInner = l
				if op == 'w' {
					watcher = ws
				}
			}
		case 'd':
			blank.Done(cctx)
			ccancel()
			if watcher == nil {
				doneForwarded = true
			}
		}
		// Done reaches dials iff no watching inner is installed: with the Blank as only watcher the monitor exits
		if !withOther {
			if doneForwarded {
				select {
				case <-done:
				case <-time.After(10 * time.Second):
					// not a verdict by itself: the monitor parked in its own select in two dumps 300ms apart, still
					// not gone, means that the Done never reached it; anything else is a slow machine
					s1, d1 := monitorState()
					time.Sleep(300 * time.Millisecond)
					s2, _ := monitorState()
					select {
					case <-done:
					default:
						if s1 == "idle" && s2 == "idle" {
							w.Violation(i, key("blank-done-not-forwarded"), fmt.Sprintf("step %d: Done on a Blank without a watching inner did not let the monitor exit (monitor idle in its select in two dumps, 10s after Done returned)", k), map[string]any{"case": desc, "goroutine": fw.TrimStack(d1)})
						} else {
							w.Inconclusive(i, fmt.Sprintf("monitor not gone 10s after the Blank's Done; monitor state %s/%s", s1, s2))
						}
						return
					}
				}
			} else {
				select {
				case <-done:
					w.Violation(i, key("blank-done-forwarded-with-watching-inner"), fmt.Sprintf("step %d (%c): the monitor exited although a watching inner source owns the slot (or Done was never called)", k, op), desc)
					return
				default:
				}
			}
		}
		// the view follows the model
		w.Count("twin_views_compared", 1)
		if df := gen.Diff(expectView(), reflect.ValueOf(*d.View())); df != "" {
			w.Violation(i, key("blank-view-differs-from-model"), fmt.Sprintf("after step %d (%c): %s", k, op, df), desc)
			return
		}
		// Blank.Value delegates to the most recently set non-failing inner
		if modelInner != nil && !(doneForwarded && !withOther) {
			v, verr := blank.Value(ctx, dials.NewType(innerTypeOf(d)))
			if verr != nil {
				w.Violation(i, key("blank-value-does-not-delegate"), verr.Error(), desc)
				return
			}
			if df := gen.Diff(modelInner.Materialize(innerTypeOf(d)), v); df != "" {
				w.Violation(i, key("blank-value-delegates-to-wrong-inner"), df, desc)
				return
			}
		}
		// an installed watching inner's later updates are applied, whatever context SetSource was called with
		if watcher != nil && !(doneForwarded && !withOther) {
			wch := native
			if watcher.ch != nil {
				wch = watcher.ch
			}
			ul := c20Layer(r, c, wch, leaves)
			repDone := make(chan error, 1)
			go func() { repDone <- watcher.report(ul, true, nil) }()
			var err error
			select {
			case err = <-repDone:
			case <-time.After(8 * time.Second):
				// the report is stuck: either the monitor exited (Done was forwarded although a watcher owns the slot) or unknown
				select {
				case <-done:
					w.Violation(i, key("blank-done-forwarded-with-watching-inner"), fmt.Sprintf("after step %d (%c): the monitor exited although a watching inner source owns the slot; its update can never be delivered", k, op), desc)
				default:
					w.Inconclusive(i, "watching inner's update did not return; monitor still running")
				}
				cancel()
				return
			}
			if err != nil {
				w.Violation(i, key("watching-inner-update-lost"), fmt.Sprintf("after step %d: update from the watching inner set through the Blank failed: %v", k, err), desc)
				return
			}
			modelInner = ul
			w.Count("wrapped_updates_applied", 1)
			if df := gen.Diff(expectView(), reflect.ValueOf(*d.View())); df != "" {
				w.Violation(i, key("watching-inner-update-not-applied"), df, desc)
				return
			}
		}
	}
	w.Count("blank_sequences_run", 1)
	if anyWrapped {
		w.Count("blank_sequences_with_wrapped_inner_run", 1)
	}
	w.Distinct(fmt.Sprintf("blank|%s|%v|%s", seq, withOther, strings.Join(wrappedSteps, ",")))
	if i%53 == 0 {
		w.Sample(desc)
	}
}

var (
	c20TypeOnce sync.Once
	c20PtrType  reflect.Type
)

// innerTypeOf: the pointerified type dials asks sources for (captured from a probe source once).
func innerTypeOf(_ *dials.Dials[c20Cfg]) reflect.Type {
	c20TypeOnce.Do(func() {
		p := &typeProbe{}
		dials.Config(context.Background(), &c20Cfg{}, p)
		c20PtrType = p.t
	})
	return c20PtrType
}

type typeProbe struct{ t reflect.Type }

func (p *typeProbe) Value(_ context.Context, t *dials.Type) (reflect.Value, error) {
	p.t = t.Type()
	return reflect.New(t.Type()).Elem(), nil
}
