package checks

// C13 schema generator: config struct types built at run time with
// reflect.StructOf from word lists the harness keeps, so that the document key
// of every leaf in every format is known by construction (never derived by
// calling dials code).

import (
	"fmt"
	"net"
	"reflect"
	"strings"
	"time"

	"verifharness/fw"
	"verifharness/gen"
)

type c13Fmt int

const (
	c13JSON c13Fmt = iota
	c13YAML
	c13TOML
	c13Cue
)

var c13FmtNames = [4]string{"json", "yaml", "toml", "cue"}

type c13Kind int

const (
	c13Bool c13Kind = iota
	c13Int
	c13Uint
	c13Float
	c13String
	c13Duration
	c13Time
	c13IP
	c13Text
	c13Slice       // slice of a leaf kind
	c13Map         // map[string]leaf or map[string][]string
	c13Set         // map[string]struct{}
	c13Struct      // nested struct value
	c13PtrStruct   // pointer to nested struct
	c13SliceStruct // slice of structs
)

// C13Text is the harness's text-unmarshalable struct type ("A|B").
type C13Text struct {
	A, B string
}

// UnmarshalText implements encoding.TextUnmarshaler.
func (t *C13Text) UnmarshalText(b []byte) error {
	i := strings.IndexByte(string(b), '|')
	if i < 0 {
		return fmt.Errorf("c13 text value %q has no separator", b)
	}
	t.A, t.B = string(b[:i]), string(b[i+1:])
	return nil
}

var (
	c13TimeType     = reflect.TypeOf(time.Time{})
	c13DurationType = reflect.TypeOf(time.Duration(0))
	c13IPType       = reflect.TypeOf(net.IP{})
	c13TextType     = reflect.TypeOf(C13Text{})
	c13EmptyStruct  = reflect.TypeOf(struct{}{})
)

type c13Node struct {
	kind   c13Kind
	bits   int // Int/Uint: 0 (int/uint), 8, 16, 32, 64; Float: 32, 64
	typ    reflect.Type
	elem   *c13Node    // Slice/Map: element; PtrStruct/SliceStruct: the struct node
	fields []*c13Field // Struct
	sig    string
}

type c13Field struct {
	name     string
	words    []string
	dialsKey string
	// own holds explicit format tags: json, yaml, toml, and (index 3) an
	// inert `cue` tag that no decoder reads.
	own  [4]string
	keys [4]string // effective document key per format
	node *c13Node
	skip bool // dials:"-"
	// foreign: the field also carries a tag of some other library whose key
	// ends in json/yaml/toml; foreignAlone: and no real tag of that format
	foreign, foreignAlone bool
	// lookalike[k]: a look-alike tag for json (0, also Cue), yaml (1), toml (2)
	// and no real tag of that format
	lookalike [3]bool
	// embedded: an anonymous struct (or *struct) field; with its dials tag
	// it is a named member of the document, not a promoted one
	embedded bool
	tag      reflect.StructTag
}

// hasOwn reports whether format f reads this field from a format-specific tag.
func (f *c13Field) hasOwn(fm c13Fmt) bool { return f.keys[fm] != f.dialsKey }

func c13Leaf(kind c13Kind, bits int) *c13Node {
	n := &c13Node{kind: kind, bits: bits}
	switch kind {
	case c13Bool:
		n.typ, n.sig = reflect.TypeOf(false), "bool"
	case c13Int:
		switch bits {
		case 0:
			n.typ = reflect.TypeOf(int(0))
		case 8:
			n.typ = reflect.TypeOf(int8(0))
		case 16:
			n.typ = reflect.TypeOf(int16(0))
		case 32:
			n.typ = reflect.TypeOf(int32(0))
		case 64:
			n.typ = reflect.TypeOf(int64(0))
		}
		n.sig = n.typ.String()
	case c13Uint:
		switch bits {
		case 0:
			n.typ = reflect.TypeOf(uint(0))
		case 8:
			n.typ = reflect.TypeOf(uint8(0))
		case 16:
			n.typ = reflect.TypeOf(uint16(0))
		case 32:
			n.typ = reflect.TypeOf(uint32(0))
		case 64:
			n.typ = reflect.TypeOf(uint64(0))
		}
		n.sig = n.typ.String()
	case c13Float:
		if bits == 32 {
			n.typ = reflect.TypeOf(float32(0))
		} else {
			n.typ = reflect.TypeOf(float64(0))
		}
		n.sig = n.typ.String()
	case c13String:
		n.typ, n.sig = reflect.TypeOf(""), "string"
	case c13Duration:
		n.typ, n.sig = c13DurationType, "duration"
	case c13Time:
		n.typ, n.sig = c13TimeType, "time"
	case c13IP:
		n.typ, n.sig = c13IPType, "ip"
	case c13Text:
		n.typ, n.sig = c13TextType, "text"
	case c13Set:
		n.typ, n.sig = reflect.MapOf(reflect.TypeOf(""), c13EmptyStruct), "set"
	default:
		panic("c13Leaf: not a leaf kind")
	}
	return n
}

func c13SliceOf(elem *c13Node) *c13Node {
	n := &c13Node{kind: c13Slice, elem: elem, typ: reflect.SliceOf(elem.typ), sig: "[]" + elem.sig}
	if elem.kind == c13Time {
		n.sig = "[]time.Time"
	}
	return n
}

func c13MapOf(elem *c13Node) *c13Node {
	return &c13Node{kind: c13Map, elem: elem, typ: reflect.MapOf(reflect.TypeOf(""), elem.typ), sig: "map[string]" + elem.sig}
}

func c13StructOf(fields []*c13Field) *c13Node {
	sfs := make([]reflect.StructField, len(fields))
	for i, f := range fields {
		sfs[i] = reflect.StructField{Name: f.name, Type: f.node.typ, Tag: f.tag, Anonymous: f.embedded}
	}
	return &c13Node{kind: c13Struct, fields: fields, typ: reflect.StructOf(sfs), sig: "struct"}
}

func c13PtrTo(st *c13Node) *c13Node {
	return &c13Node{kind: c13PtrStruct, elem: st, typ: reflect.PointerTo(st.typ), sig: "*struct"}
}

func c13SliceOfStruct(st *c13Node) *c13Node {
	return &c13Node{kind: c13SliceStruct, elem: st, typ: reflect.SliceOf(st.typ), sig: "[]struct"}
}

// structNode returns the struct node behind a Struct/PtrStruct/SliceStruct node.
func (n *c13Node) structNode() *c13Node {
	if n.kind == c13Struct {
		return n
	}
	return n.elem
}

// c13SchemaGen draws schemas.
type c13SchemaGen struct {
	r *fw.Rand
	// allowTextSlice lets []time.Time appear (a separate, low-weight
	// family; see Rule).
	allowTextSlice bool
	forceTextSlice bool // top level gets one such field for sure
	maxDepth       int
	budget         int // remaining leaves
	hasSet         bool
	hasOwnTag      bool
	hasEmbedded    bool
	hasForeign     bool
	// hasNonASCIIName: some field's Go name has a letter outside ASCII
	hasNonASCIIName bool
	inElem          int // > 0 while generating the element type of a []struct
}

var c13IntBits = []int{0, 8, 16, 32, 64}

func (g *c13SchemaGen) scalarLeaf(forSliceElem bool) *c13Node {
	r := g.r
	for {
		switch r.Intn(12) {
		case 0:
			return c13Leaf(c13Bool, 0)
		case 1, 2:
			return c13Leaf(c13Int, fw.Pick(r, c13IntBits))
		case 3, 4:
			b := fw.Pick(r, c13IntBits)
			if forSliceElem && b == 8 {
				continue // []uint8 is a base64 string in JSON: not the same data shape in all formats
			}
			return c13Leaf(c13Uint, b)
		case 5:
			return c13Leaf(c13Float, 32+32*r.Intn(2))
		case 6, 7:
			return c13Leaf(c13String, 0)
		case 8:
			return c13Leaf(c13Duration, 0)
		case 9:
			if forSliceElem {
				if g.allowTextSlice {
					return c13Leaf(c13Time, 0)
				}
				continue
			}
			return c13Leaf(c13Time, 0)
		case 10:
			return c13Leaf(c13IP, 0)
		case 11:
			if forSliceElem {
				// go-toml cannot fill a slice of a user-defined
				// TextUnmarshaler struct from an array of strings even
				// without dials: not expressible in all four formats
				continue
			}
			return c13Leaf(c13Text, 0)
		}
	}
}

func (g *c13SchemaGen) fieldNode(depth int) *c13Node {
	r := g.r
	g.budget--
	x := r.Intn(100)
	canNest := depth < g.maxDepth && g.budget > 2
	switch {
	case x < 46:
		return g.scalarLeaf(false)
	case x < 58:
		return c13SliceOf(g.scalarLeaf(true))
	case x < 68:
		if r.Chance(25) {
			return c13MapOf(c13SliceOf(c13Leaf(c13String, 0)))
		}
		return c13MapOf(g.scalarLeaf(false))
	case x < 75:
		g.hasSet = true
		return c13Leaf(c13Set, 0)
	case x < 85:
		if canNest {
			return g.structNode(depth + 1)
		}
	case x < 92:
		if canNest {
			return c13PtrTo(g.structNode(depth + 1))
		}
	default:
		if canNest {
			g.inElem++
			st := g.structNode(depth + 1)
			g.inElem--
			return c13SliceOfStruct(st)
		}
	}
	return g.scalarLeaf(false)
}

func c13KeyStyle(style int, words []string) string {
	switch style {
	case 0:
		return gen.LowerSnake(words)
	case 1:
		return gen.Kebab(words)
	default:
		return gen.LowerCamel(words)
	}
}

// c13UpperInitials are upper-case letters outside ASCII (one to four bytes of
// UTF-8, Latin-1, Latin Extended, Greek, Cyrillic, Armenian, Deseret): a Go
// identifier starting with one of them is exported, exactly like one starting
// with A-Z.
var c13UpperInitials = []string{"Ä", "É", "Ñ", "Ö", "Ü", "Ø", "Þ", "Ç", "Š", "Ł", "Ω", "Σ", "Δ", "Д", "Ж", "Я", "Ա", "Ǆ", "Ⅎ", "𐐀"}

// c13LowerLetters are lower-case (or caseless) letters outside ASCII that may
// follow the initial of a Go identifier.
var c13LowerLetters = []string{"é", "ñ", "ß", "ø", "ω", "д", "ï", "ə", "世", "ʼ", "𐐨"}

// c13GoNameForm spells the Go NAME of a field (never its document key, which
// is given by the tags alone) in one of the forms a Go identifier of an
// exported field may take. form 0 is the plain ASCII name.
func c13GoNameForm(nr *fw.Rand, words []string) (string, int) {
	base := gen.GoName(words)
	switch x := nr.Intn(100); {
	case x < 84:
		return base, 0
	case x < 90:
		// non-ASCII upper-case initial in front of the usual name: ÄMaxConn
		return fw.Pick(nr, c13UpperInitials) + base, 1
	case x < 95:
		// ... followed by a lower-case letter: ÄmaxConn
		return fw.Pick(nr, c13UpperInitials) + gen.LowerCamel(words), 2
	case x < 98:
		// ASCII initial, non-ASCII letter further on: MaxConné
		return base + fw.Pick(nr, c13LowerLetters), 3
	default:
		// both: ÜMaxConnß
		return fw.Pick(nr, c13UpperInitials) + base + fw.Pick(nr, c13LowerLetters), 4
	}
}

// c13NonASCIIName reports whether a Go field name has a character outside
// ASCII, and whether its first character is one.
func c13NonASCIIName(name string) (some, initial bool) {
	for i := 0; i < len(name); i++ {
		if name[i] >= 0x80 {
			return true, name[0] >= 0x80
		}
	}
	return false, false
}

func (g *c13SchemaGen) structNode(depth int) *c13Node {
	r := g.r
	// the spelling of the Go names is drawn from a stream of its own, derived
	// from (not drawn from) the case's stream
	nr := fw.NewRand(fw.Mix(r.State(), 0xc13a5c11))
	nf := r.Range(1, 6)
	if depth == 0 {
		nf = r.Range(2, 8)
	}
	used := map[string]bool{}
	fresh := func() []string {
		for try := 0; ; try++ {
			n := r.Range(1, 3)
			if try > 20 {
				n = 4
			}
			ws := gen.RandomWords(r, n, 20)
			c := strings.Join(ws, "")
			if !used[c] {
				used[c] = true
				return ws
			}
		}
	}
	structStyle := r.Intn(3)
	perField := r.Chance(30)
	var fields []*c13Field
	for i := 0; i < nf; i++ {
		f := &c13Field{}
		f.words = fresh()
		f.name = gen.GoName(f.words)
		if r.Chance(5) {
			// a skipped field in any position
			f.skip = true
			f.node = c13Leaf(c13Int, 0)
			f.tag = reflect.StructTag(`dials:"-"`)
			f.name, _ = c13GoNameForm(nr, f.words)
			fields = append(fields, f)
			continue
		}
		style := structStyle
		if perField {
			style = r.Intn(3)
		}
		f.node = g.fieldNode(depth)
		ownName := false
		// (not inside slice elements: there the struct is not pointerified,
		// and go-toml fills an embedded struct VALUE whose own key is absent
		// from its parent's table - promotion as a fallback - which the
		// other three libraries do not do)
		if (f.node.kind == c13Struct || f.node.kind == c13PtrStruct) && g.inElem == 0 && r.Chance(35) {
			// an embedded (anonymous) struct field that carries a dials tag
			// is a named member of the document in every format. Half of
			// them get the tag a Go programmer would write: the field's own
			// name in another case (Limits `dials:"limits"`, MaxConn
			// `dials:"maxConn"`); the others a tag unrelated to the name's
			// spelling (snake/kebab of several words).
			f.embedded = true
			g.hasEmbedded = true
			if r.Chance(55) {
				style = 2 // lowerCamel: equals the Go name when case is ignored
				ownName = true
			} else if len(f.words) == 1 {
				// a single word is the name in every style; add a word so
				// snake/kebab spell it differently from the Go name
				for {
					ws := append(append([]string{}, f.words...), fresh()...)
					if c := strings.Join(ws, ""); !used[c] {
						used[c] = true
						f.words = ws
						break
					}
				}
				f.name = gen.GoName(f.words)
				style = r.Intn(2)
			} else {
				style = r.Intn(2)
			}
			f.node.sig = "embedded-" + f.node.sig
		}
		if !ownName {
			// (an embedded member keyed by its own Go name keeps the ASCII
			// name, so that name and key stay equal when case is ignored)
			var form int
			if f.name, form = c13GoNameForm(nr, f.words); form != 0 {
				g.hasNonASCIIName = true
			}
		}
		f.dialsKey = c13KeyStyle(style, f.words)
		for k := 0; k < 4; k++ {
			if r.Chance(18) {
				f.own[k] = c13KeyStyle(r.Intn(3), fresh())
			}
		}
		for fm := c13JSON; fm <= c13Cue; fm++ {
			f.keys[fm] = f.dialsKey
		}
		if f.own[0] != "" {
			f.keys[c13JSON] = f.own[0]
			f.keys[c13Cue] = f.own[0] // the Cue decoder reads json tags
		}
		if f.own[1] != "" {
			f.keys[c13YAML] = f.own[1]
		}
		if f.own[2] != "" {
			f.keys[c13TOML] = f.own[2]
		}
		if f.own[0] != "" || f.own[1] != "" || f.own[2] != "" {
			g.hasOwnTag = true
		}
		parts := []string{fmt.Sprintf("dials:%q", f.dialsKey)}
		for k, nm := range []string{"json", "yaml", "toml", "cue"} {
			if f.own[k] != "" {
				parts = append(parts, fmt.Sprintf("%s:%q", nm, f.own[k]))
			}
		}
		// tags of other libraries whose key merely ENDS in a format's name
		// (geojson, goyaml, legacytoml, ...): not a tag of that format, so
		// the dials tag still names the key
		for k, names := range c13ForeignTags {
			if r.Chance(12) {
				f.foreign = true
				g.hasForeign = true
				if f.own[k] == "" {
					f.foreignAlone = true
					f.lookalike[k] = true
				}
				parts = append(parts, fmt.Sprintf("%s:%q", fw.Pick(r, names), fw.Pick(r, c13ForeignValues)))
			}
		}
		p := r.Perm(len(parts))
		tagParts := make([]string, len(parts))
		for a, b := range p {
			tagParts[a] = parts[b]
		}
		f.tag = reflect.StructTag(strings.Join(tagParts, " "))
		fields = append(fields, f)
	}
	if depth == 0 && g.forceTextSlice {
		f := &c13Field{words: fresh()}
		f.name = gen.GoName(f.words)
		f.dialsKey = c13KeyStyle(structStyle, f.words)
		for fm := c13JSON; fm <= c13Cue; fm++ {
			f.keys[fm] = f.dialsKey
		}
		f.tag = reflect.StructTag(fmt.Sprintf("dials:%q", f.dialsKey))
		f.node = c13SliceOf(c13Leaf(c13Time, 0))
		fields = append(fields, f)
	}
	// at least one real field
	real := false
	for _, f := range fields {
		if !f.skip {
			real = true
		}
	}
	if !real {
		f := fields[0]
		f.skip = false
		f.dialsKey = c13KeyStyle(structStyle, f.words)
		for fm := c13JSON; fm <= c13Cue; fm++ {
			f.keys[fm] = f.dialsKey
		}
		f.tag = reflect.StructTag(fmt.Sprintf("dials:%q", f.dialsKey))
		f.node = g.scalarLeaf(false)
	}
	return c13StructOf(fields)
}

// c13SchemaFromType derives a schema from a compiled-in Go type by reading
// its tags with reflect.StructTag (not with dials code).
func c13SchemaFromType(t reflect.Type) *c13Node {
	switch {
	case t == c13DurationType:
		return c13Leaf(c13Duration, 0)
	case t == c13TimeType:
		return c13Leaf(c13Time, 0)
	case t == c13IPType:
		return c13Leaf(c13IP, 0)
	case t == c13TextType:
		return c13Leaf(c13Text, 0)
	}
	bitsOf := func(k reflect.Kind) int {
		switch k {
		case reflect.Int, reflect.Uint:
			return 0
		case reflect.Int8, reflect.Uint8:
			return 8
		case reflect.Int16, reflect.Uint16:
			return 16
		case reflect.Int32, reflect.Uint32:
			return 32
		}
		return 64
	}
	switch t.Kind() {
	case reflect.Bool:
		return c13Leaf(c13Bool, 0)
	case reflect.Int, reflect.Int8, reflect.Int16, reflect.Int32, reflect.Int64:
		return c13Leaf(c13Int, bitsOf(t.Kind()))
	case reflect.Uint, reflect.Uint8, reflect.Uint16, reflect.Uint32, reflect.Uint64:
		return c13Leaf(c13Uint, bitsOf(t.Kind()))
	case reflect.Float32:
		return c13Leaf(c13Float, 32)
	case reflect.Float64:
		return c13Leaf(c13Float, 64)
	case reflect.String:
		return c13Leaf(c13String, 0)
	case reflect.Slice:
		if t.Elem().Kind() == reflect.Struct && t.Elem() != c13TimeType && t.Elem() != c13TextType {
			n := c13SliceOfStruct(c13SchemaFromType(t.Elem()))
			n.typ = t
			return n
		}
		n := c13SliceOf(c13SchemaFromType(t.Elem()))
		n.typ = t
		return n
	case reflect.Map:
		if t.Elem() == c13EmptyStruct {
			n := c13Leaf(c13Set, 0)
			n.typ = t
			return n
		}
		n := c13MapOf(c13SchemaFromType(t.Elem()))
		n.typ = t
		return n
	case reflect.Ptr:
		n := c13PtrTo(c13SchemaFromType(t.Elem()))
		n.typ = t
		return n
	case reflect.Struct:
		var fields []*c13Field
		for i := 0; i < t.NumField(); i++ {
			sf := t.Field(i)
			f := &c13Field{name: sf.Name, tag: sf.Tag}
			dk := sf.Tag.Get("dials")
			if dk == "-" {
				f.skip = true
				f.node = c13Leaf(c13Int, 0)
				f.node.typ = sf.Type
				fields = append(fields, f)
				continue
			}
			f.dialsKey = dk
			for k, nm := range []string{"json", "yaml", "toml", "cue"} {
				f.own[k] = sf.Tag.Get(nm)
			}
			for k, names := range c13ForeignTags {
				for _, nm := range names {
					if _, ok := sf.Tag.Lookup(nm); ok {
						f.foreign = true
						if f.own[k] == "" {
							f.foreignAlone = true
							f.lookalike[k] = true
						}
					}
				}
			}
			for fm := c13JSON; fm <= c13Cue; fm++ {
				f.keys[fm] = dk
			}
			if f.own[0] != "" {
				f.keys[c13JSON], f.keys[c13Cue] = f.own[0], f.own[0]
			}
			if f.own[1] != "" {
				f.keys[c13YAML] = f.own[1]
			}
			if f.own[2] != "" {
				f.keys[c13TOML] = f.own[2]
			}
			f.node = c13SchemaFromType(sf.Type)
			if sf.Anonymous {
				f.embedded = true
				f.node.sig = "embedded-" + f.node.sig
			}
			fields = append(fields, f)
		}
		return &c13Node{kind: c13Struct, fields: fields, typ: t, sig: "struct"}
	}
	panic("c13SchemaFromType: unsupported type " + t.String())
}

// c13SchemaSig is the structural signature of a schema (kinds and which
// format-specific tags exist), used for the distinct-case count.
func c13SchemaSig(n *c13Node, b *strings.Builder) {
	switch n.kind {
	case c13Struct:
		b.WriteByte('{')
		for _, f := range n.fields {
			if f.skip {
				b.WriteString("-;")
				continue
			}
			for k := 0; k < 4; k++ {
				if f.own[k] != "" {
					b.WriteByte("jytc"[k])
				}
			}
			if f.embedded {
				b.WriteByte('E')
			}
			b.WriteByte(':')
			c13SchemaSig(f.node, b)
			b.WriteByte(';')
		}
		b.WriteByte('}')
	case c13PtrStruct:
		b.WriteByte('*')
		c13SchemaSig(n.elem, b)
	case c13SliceStruct:
		b.WriteString("[]")
		c13SchemaSig(n.elem, b)
	default:
		b.WriteString(n.sig)
	}
}

func c13HasSet(n *c13Node) bool {
	switch n.kind {
	case c13Set:
		return true
	case c13Struct:
		for _, f := range n.fields {
			if !f.skip && c13HasSet(f.node) {
				return true
			}
		}
	case c13PtrStruct, c13SliceStruct:
		return c13HasSet(n.elem)
	}
	return false
}

func (n *c13Node) elemIsTextStruct() bool {
	return n.kind == c13Slice && n.elem.kind == c13Time
}

// c13ForeignTags are struct-tag keys of other libraries that end in the name
// of a format (index 0 json - also read by the Cue decoder -, 1 yaml, 2 toml).
var c13ForeignTags = [3][]string{
	{"geojson", "hjson", "bjson", "myjson"},
	{"goyaml", "myyaml", "xyaml"},
	{"legacytoml", "oldtoml", "xtoml"},
}

var c13ForeignValues = []string{"x", "Point", "geo,omitempty", "-", "legacy_name", "someOtherKey", ",inline", "a-b"}

// lookalikeFor reports whether the field carries a look-alike foreign tag for
// the tag name format fm reads, and no real one.
func (f *c13Field) lookalikeFor(fm c13Fmt) bool {
	switch fm {
	case c13JSON, c13Cue:
		return f.lookalike[0]
	case c13YAML:
		return f.lookalike[1]
	}
	return f.lookalike[2]
}
