package gen

import (
	"fmt"
	"math"
	"net"
	"reflect"
	"sort"
	"strconv"
	"strings"
	"time"

	"verifharness/fw"
)

// Named leaf types (the "user-defined named version" dimension).
type (
	Level  uint8
	Name   string
	Ratio  float32
	Mode   int
	Big    int64
	Flag   bool
	Names  []string
	Labels map[string]string
	Levels []Level
	Wait   time.Duration
	Cx     complex64
	Cx2    complex128
)

// TU is a harness text-unmarshalable struct ("a:b").
type TU struct {
	A, B int
}

// MarshalText implements encoding.TextMarshaler.
func (t TU) MarshalText() ([]byte, error) { return []byte(fmt.Sprintf("%d:%d", t.A, t.B)), nil }

// UnmarshalText implements encoding.TextUnmarshaler.
func (t *TU) UnmarshalText(b []byte) error {
	parts := strings.Split(string(b), ":")
	if len(parts) != 2 {
		return fmt.Errorf("TU: want a:b, got %q", b)
	}
	a, err := strconv.Atoi(parts[0])
	if err != nil {
		return err
	}
	bb, err := strconv.Atoi(parts[1])
	if err != nil {
		return err
	}
	t.A, t.B = a, bb
	return nil
}

// Elem is a struct used as slice/array element.
type Elem struct {
	X int
	Y string
}

// ElemHidden is an element struct with an unexported field.
type ElemHidden struct {
	hidden int
	X      int
	Y      string
}

// ElemT is a slice element struct holding a text-unmarshalable struct by value (inside slice elements nothing is
// pointerified).
type ElemT struct {
	When time.Time
	N    int
}

// EmbInner / ElemEmb: a slice element struct that embeds another struct (exported scalar fields, then an unexported one).
type EmbInner struct {
	A      string
	B      int
	hidden int
}

// ElemEmb embeds EmbInner.
type ElemEmb struct {
	EmbInner
	Z int
}

// RefElem is an array/slice element struct that holds reference content.
type RefElem struct {
	Tags map[string]int
	W    []int
}

// Limits / Backend: a slice element struct that embeds a pointer to a struct
// (inside slice elements nothing is pointerified).
type Limits struct {
	Max  int
	Rate float64
}

// Backend embeds *Limits.
type Backend struct {
	Name string
	*Limits
}

// Opt is a text-unmarshalable struct that accepts the empty text (and records that it was set).
type Opt struct {
	S   string
	Set bool
}

// MarshalText implements encoding.TextMarshaler.
func (o Opt) MarshalText() ([]byte, error) { return []byte(o.S), nil }

// UnmarshalText implements encoding.TextUnmarshaler.
func (o *Opt) UnmarshalText(b []byte) error {
	o.S, o.Set = string(b), true
	return nil
}

// TURef is a text-unmarshalable struct that also holds mutable memory in exported fields (dials treats
// text-unmarshalable structs as single values; they must still be copied deeply).
type TURef struct {
	List []string
	M    map[string]int
	P    *int
}

// UnmarshalText implements encoding.TextUnmarshaler.
func (t *TURef) UnmarshalText(b []byte) error {
	t.List = strings.Split(string(b), ",")
	return nil
}

// Two function-local element types, both named Node (same package path, same name, different types): one without any
// reference inside, one made of references.
func localNodePlainLeaf() *Leaf {
	type Node struct{ X, Y int }
	return &Leaf{Name: "[]Node(local,no-refs)", Type: reflect.TypeOf([]Node{}), Caps: CapRef,
		Gen: func(r *fw.Rand, uniq int) reflect.Value { return rv([]Node{{X: uniq, Y: 1}, {X: -uniq}}) }}
}

func localNodeRefsLeaf() *Leaf {
	type Node struct {
		M map[string]int
		S []int
		P *int
	}
	return &Leaf{Name: "[]Node(local,refs)", Type: reflect.TypeOf([]Node{}), Caps: CapRef,
		Gen: func(r *fw.Rand, uniq int) reflect.Value {
			x := uniq
			return rv([]Node{{M: map[string]int{"m": uniq}, S: []int{uniq, 2}, P: &x}, {S: make([]int, 1, 4)}})
		}}
}

// Capability flags of a leaf kind.
const (
	CapEnv   = 1 << iota // string-castable (environment source)
	CapFlag              // supported by the flag sources
	CapFile              // expressible in all four file formats
	CapRef               // contains mutable memory (pointer, map, slice backing array)
	CapNamed             // user-defined named type
	CapTextU             // text-unmarshalable
	CapIface             // interface-typed field (only checks that opt in generate these)
)

// Leaf describes a leaf type.
type Leaf struct {
	Name string
	Type reflect.Type
	Caps int
	// Gen produces a value; uniq makes it unique within a case.
	Gen func(r *fw.Rand, uniq int) reflect.Value
	// Text renders the canonical text form (env value / flag argument).
	Text func(v reflect.Value) string
}

func rv(x any) reflect.Value { return reflect.ValueOf(x) }

func intText(v reflect.Value) string  { return strconv.FormatInt(v.Int(), 10) }
func uintText(v reflect.Value) string { return strconv.FormatUint(v.Uint(), 10) }

// floatText prints the exact (widened) value, so that the text denotes the
// float32 itself and not a shorter decimal that merely rounds to it.
func floatText(v reflect.Value) string { return strconv.FormatFloat(v.Float(), 'g', -1, 64) }

func signedLeaf(name string, zero any, bits int, caps int) *Leaf {
	t := reflect.TypeOf(zero)
	return &Leaf{Name: name, Type: t, Caps: caps, Text: intText,
		Gen: func(r *fw.Rand, uniq int) reflect.Value {
			v := reflect.New(t).Elem()
			max := int64(1)<<(bits-1) - 1
			var x int64
			switch r.Intn(10) {
			case 0:
				x = max
			case 1:
				x = -max - 1
			case 2:
				x = -int64(uniq % 100)
			default:
				x = int64(uniq)%max + 1
			}
			v.SetInt(x)
			return v
		}}
}

func unsignedLeaf(name string, zero any, bits int, caps int) *Leaf {
	t := reflect.TypeOf(zero)
	return &Leaf{Name: name, Type: t, Caps: caps, Text: uintText,
		Gen: func(r *fw.Rand, uniq int) reflect.Value {
			v := reflect.New(t).Elem()
			var max uint64 = math.MaxUint64
			if bits < 64 {
				max = uint64(1)<<bits - 1
			}
			x := uint64(uniq)%max + 1
			if r.Intn(10) == 0 {
				x = max
			}
			v.SetUint(x)
			return v
		}}
}

var hostileStrings = []string{"", "a,b", "k:v", `q"uote`, `back\slash`, "sp ace", "tab\there", "ünïcode", "日本", "`tick`", "'single'", "x=y", "-dash", "#hash", "  lead", "trail  ", "{json}", "[1]", "null", "true", "0x10", "nl\n", "crlf\r\n", "cr\r", "\nlead"}

// GenString produces a string that embeds uniq (so it identifies its origin).
func GenString(r *fw.Rand, uniq int) string {
	switch r.Intn(6) {
	case 0:
		return hostileStrings[r.Intn(len(hostileStrings))] + strconv.Itoa(uniq)
	case 1:
		return strconv.Itoa(uniq) + hostileStrings[r.Intn(len(hostileStrings))]
	default:
		return "v" + strconv.Itoa(uniq)
	}
}

func quoteList(items []string) string {
	q := make([]string, len(items))
	for i, s := range items {
		q[i] = strconv.Quote(s)
	}
	return strings.Join(q, ",")
}

// AllLeaves is the pool of all leaf kinds.
var AllLeaves = buildLeaves()

// LeafByName finds a leaf kind.
func LeafByName(n string) *Leaf {
	for _, l := range AllLeaves {
		if l.Name == n {
			return l
		}
	}
	panic("no leaf " + n)
}

func buildLeaves() []*Leaf {
	all := CapEnv | CapFlag | CapFile
	ls := []*Leaf{
		{Name: "bool", Type: reflect.TypeOf(false), Caps: all, Text: func(v reflect.Value) string { return strconv.FormatBool(v.Bool()) },
			Gen: func(r *fw.Rand, uniq int) reflect.Value { return rv(uniq%2 == 0) }},
		signedLeaf("int", int(0), 64, all), signedLeaf("int8", int8(0), 8, all), signedLeaf("int16", int16(0), 16, all),
		signedLeaf("int32", int32(0), 32, all), signedLeaf("int64", int64(0), 64, all),
		unsignedLeaf("uint", uint(0), 64, all), unsignedLeaf("uint8", uint8(0), 8, all), unsignedLeaf("uint16", uint16(0), 16, all),
		unsignedLeaf("uint32", uint32(0), 32, all), unsignedLeaf("uint64", uint64(0), 64, all),
		{Name: "float32", Type: reflect.TypeOf(float32(0)), Caps: all, Text: floatText,
			Gen: func(r *fw.Rand, uniq int) reflect.Value {
				switch r.Intn(8) {
				case 0:
					return rv(float32(math.MaxFloat32))
				case 1:
					return rv(float32(math.SmallestNonzeroFloat32))
				}
				return rv(float32(uniq) + 0.25)
			}},
		{Name: "float64", Type: reflect.TypeOf(float64(0)), Caps: all, Text: floatText,
			Gen: func(r *fw.Rand, uniq int) reflect.Value {
				switch r.Intn(8) {
				case 0:
					return rv(math.MaxFloat64)
				case 1:
					return rv(math.SmallestNonzeroFloat64)
				}
				return rv(float64(uniq) + 0.5)
			}},
		{Name: "complex64", Type: reflect.TypeOf(complex64(0)), Caps: CapEnv | CapFlag,
			Text: func(v reflect.Value) string { return strconv.FormatComplex(v.Complex(), 'g', -1, 64) },
			Gen:  func(r *fw.Rand, uniq int) reflect.Value { return rv(complex(float32(uniq), float32(-uniq)-0.5)) }},
		{Name: "complex128", Type: reflect.TypeOf(complex128(0)), Caps: CapEnv | CapFlag,
			Text: func(v reflect.Value) string { return strconv.FormatComplex(v.Complex(), 'g', -1, 128) },
			Gen:  func(r *fw.Rand, uniq int) reflect.Value { return rv(complex(float64(uniq)+0.5, float64(uniq))) }},
		{Name: "string", Type: reflect.TypeOf(""), Caps: all, Text: func(v reflect.Value) string { return v.String() },
			Gen: func(r *fw.Rand, uniq int) reflect.Value { return rv(GenString(r, uniq)) }},
		{Name: "duration", Type: reflect.TypeOf(time.Duration(0)), Caps: all,
			Text: func(v reflect.Value) string { return time.Duration(v.Int()).String() },
			Gen: func(r *fw.Rand, uniq int) reflect.Value {
				return rv(time.Duration(uniq)*time.Millisecond + time.Duration(r.Intn(3))*time.Hour)
			}},
		{Name: "time", Type: reflect.TypeOf(time.Time{}), Caps: CapFlag | CapFile | CapTextU,
			Text: func(v reflect.Value) string { return v.Interface().(time.Time).Format(time.RFC3339Nano) },
			Gen: func(r *fw.Rand, uniq int) reflect.Value {
				return rv(time.Date(2001+uniq%30, time.Month(1+uniq%12), 1+uniq%28, uniq%24, uniq%60, uniq%60, (uniq%1000)*1000000, time.UTC))
			}},
		{Name: "ip", Type: reflect.TypeOf(net.IP{}), Caps: CapFlag | CapFile | CapTextU | CapRef,
			Text: func(v reflect.Value) string { return v.Interface().(net.IP).String() },
			Gen: func(r *fw.Rand, uniq int) reflect.Value {
				return rv(net.IPv4(10, byte(uniq>>16), byte(uniq>>8), byte(uniq)))
			}},
		{Name: "tu", Type: reflect.TypeOf(TU{}), Caps: CapFlag | CapFile | CapTextU,
			Text: func(v reflect.Value) string { b, _ := v.Interface().(TU).MarshalText(); return string(b) },
			Gen:  func(r *fw.Rand, uniq int) reflect.Value { return rv(TU{A: uniq, B: -uniq}) }},
		{Name: "[]string", Type: reflect.TypeOf([]string{}), Caps: all | CapRef,
			Text: func(v reflect.Value) string { return quoteList(v.Interface().([]string)) },
			Gen: func(r *fw.Rand, uniq int) reflect.Value {
				n := r.Range(1, 3)
				s := make([]string, n, n+r.Intn(3))
				for i := range s {
					s[i] = GenString(r, uniq*10+i)
				}
				return rv(s)
			}},
		{Name: "[]int", Type: reflect.TypeOf([]int{}), Caps: all | CapRef,
			Text: func(v reflect.Value) string {
				p := []string{}
				for _, x := range v.Interface().([]int) {
					p = append(p, strconv.Itoa(x))
				}
				return strings.Join(p, ",")
			},
			Gen: func(r *fw.Rand, uniq int) reflect.Value {
				n := r.Range(1, 3)
				s := make([]int, n, n+r.Intn(3))
				for i := range s {
					s[i] = uniq*10 + i
				}
				return rv(s)
			}},
		{Name: "[]int8", Type: reflect.TypeOf([]int8{}), Caps: CapEnv | CapFlag | CapRef,
			Text: func(v reflect.Value) string {
				p := []string{}
				for _, x := range v.Interface().([]int8) {
					p = append(p, strconv.Itoa(int(x)))
				}
				return strings.Join(p, ",")
			},
			Gen: func(r *fw.Rand, uniq int) reflect.Value { return rv([]int8{int8(uniq % 127), -128, 127}) }},
		{Name: "[]uint16", Type: reflect.TypeOf([]uint16{}), Caps: CapEnv | CapFlag | CapRef,
			Text: func(v reflect.Value) string {
				p := []string{}
				for _, x := range v.Interface().([]uint16) {
					p = append(p, strconv.Itoa(int(x)))
				}
				return strings.Join(p, ",")
			},
			Gen: func(r *fw.Rand, uniq int) reflect.Value { return rv([]uint16{uint16(uniq), 65535}) }},
		{Name: "[]int32", Type: reflect.TypeOf([]int32{}), Caps: CapEnv | CapFlag | CapRef,
			Text: func(v reflect.Value) string {
				p := []string{}
				for _, x := range v.Interface().([]int32) {
					p = append(p, strconv.FormatInt(int64(x), 10))
				}
				return strings.Join(p, ",")
			},
			Gen: func(r *fw.Rand, uniq int) reflect.Value {
				return rv([]int32{int32(uniq), math.MinInt32, math.MaxInt32})
			}},
		{Name: "[]int64", Type: reflect.TypeOf([]int64{}), Caps: CapEnv | CapFlag | CapRef,
			Text: func(v reflect.Value) string {
				p := []string{}
				for _, x := range v.Interface().([]int64) {
					p = append(p, strconv.FormatInt(x, 10))
				}
				return strings.Join(p, ",")
			},
			Gen: func(r *fw.Rand, uniq int) reflect.Value {
				return rv([]int64{int64(uniq), math.MinInt64, math.MaxInt64})
			}},
		{Name: "[]uint32", Type: reflect.TypeOf([]uint32{}), Caps: CapEnv | CapFlag | CapRef,
			Text: func(v reflect.Value) string {
				p := []string{}
				for _, x := range v.Interface().([]uint32) {
					p = append(p, strconv.FormatUint(uint64(x), 10))
				}
				return strings.Join(p, ",")
			},
			Gen: func(r *fw.Rand, uniq int) reflect.Value { return rv([]uint32{uint32(uniq), math.MaxUint32}) }},
		{Name: "[]uint64", Type: reflect.TypeOf([]uint64{}), Caps: CapEnv | CapFlag | CapRef,
			Text: func(v reflect.Value) string {
				p := []string{}
				for _, x := range v.Interface().([]uint64) {
					p = append(p, strconv.FormatUint(x, 10))
				}
				return strings.Join(p, ",")
			},
			Gen: func(r *fw.Rand, uniq int) reflect.Value {
				return rv([]uint64{uint64(uniq), 1 << 63, math.MaxUint64 - uint64(uniq)})
			}},
		{Name: "[]float64", Type: reflect.TypeOf([]float64{}), Caps: CapEnv | CapFile | CapRef,
			Text: func(v reflect.Value) string {
				p := []string{}
				for _, x := range v.Interface().([]float64) {
					p = append(p, strconv.FormatFloat(x, 'g', -1, 64))
				}
				return strings.Join(p, ",")
			},
			Gen: func(r *fw.Rand, uniq int) reflect.Value { return rv([]float64{float64(uniq) + 0.5, -1.25}) }},
		{Name: "map[string]string", Type: reflect.TypeOf(map[string]string{}), Caps: all | CapRef,
			Text: func(v reflect.Value) string {
				m := v.Interface().(map[string]string)
				keys := make([]string, 0, len(m))
				for k := range m {
					keys = append(keys, k)
				}
				sort.Strings(keys)
				p := []string{}
				for _, k := range keys {
					p = append(p, strconv.Quote(k)+":"+strconv.Quote(m[k]))
				}
				return strings.Join(p, ",")
			},
			Gen: func(r *fw.Rand, uniq int) reflect.Value {
				m := map[string]string{}
				for i := r.Range(1, 3); i > 0; i-- {
					m[GenString(r, uniq*10+i)+"k"] = GenString(r, uniq*10+i)
				}
				return rv(m)
			}},
		{Name: "map[string]int", Type: reflect.TypeOf(map[string]int{}), Caps: CapEnv | CapFile | CapRef,
			Text: func(v reflect.Value) string {
				m := v.Interface().(map[string]int)
				keys := make([]string, 0, len(m))
				for k := range m {
					keys = append(keys, k)
				}
				sort.Strings(keys)
				p := []string{}
				for _, k := range keys {
					p = append(p, strconv.Quote(k)+":"+strconv.Itoa(m[k]))
				}
				return strings.Join(p, ",")
			},
			Gen: func(r *fw.Rand, uniq int) reflect.Value {
				m := map[string]int{}
				for i := r.Range(1, 3); i > 0; i-- {
					m["k"+strconv.Itoa(uniq*10+i)] = uniq*10 + i
				}
				return rv(m)
			}},
		{Name: "map[int]string", Type: reflect.TypeOf(map[int]string{}), Caps: CapEnv | CapRef,
			Text: func(v reflect.Value) string {
				m := v.Interface().(map[int]string)
				keys := make([]int, 0, len(m))
				for k := range m {
					keys = append(keys, k)
				}
				sort.Ints(keys)
				p := []string{}
				for _, k := range keys {
					p = append(p, strconv.Itoa(k)+":"+strconv.Quote(m[k]))
				}
				return strings.Join(p, ",")
			},
			Gen: func(r *fw.Rand, uniq int) reflect.Value {
				m := map[int]string{}
				for i := r.Range(1, 3); i > 0; i-- {
					m[uniq*10+i] = GenString(r, uniq*10+i)
				}
				return rv(m)
			}},
		{Name: "set", Type: reflect.TypeOf(map[string]struct{}{}), Caps: all | CapRef,
			Text: func(v reflect.Value) string {
				m := v.Interface().(map[string]struct{})
				keys := make([]string, 0, len(m))
				for k := range m {
					keys = append(keys, k)
				}
				sort.Strings(keys)
				return quoteList(keys)
			},
			Gen: func(r *fw.Rand, uniq int) reflect.Value {
				m := map[string]struct{}{}
				for i := r.Range(1, 3); i > 0; i-- {
					m[GenString(r, uniq*10+i)] = struct{}{}
				}
				return rv(m)
			}},
		{Name: "map[string][]string", Type: reflect.TypeOf(map[string][]string{}), Caps: CapEnv | CapFlag | CapFile | CapRef,
			Text: func(v reflect.Value) string {
				m := v.Interface().(map[string][]string)
				keys := make([]string, 0, len(m))
				for k := range m {
					keys = append(keys, k)
				}
				sort.Strings(keys)
				p := []string{}
				for _, k := range keys {
					for _, x := range m[k] {
						p = append(p, strconv.Quote(k)+":"+strconv.Quote(x))
					}
				}
				return strings.Join(p, ",")
			},
			Gen: func(r *fw.Rand, uniq int) reflect.Value {
				m := map[string][]string{}
				for i := r.Range(1, 2); i > 0; i-- {
					m["k"+strconv.Itoa(uniq*10+i)] = []string{GenString(r, uniq*10+i), "x" + strconv.Itoa(uniq)}
				}
				return rv(m)
			}},
		{Name: "[3]int", Type: reflect.TypeOf([3]int{}), Caps: 0,
			Gen: func(r *fw.Rand, uniq int) reflect.Value { return rv([3]int{uniq, uniq + 1, uniq + 2}) }},
		{Name: "[2]duration", Type: reflect.TypeOf([2]time.Duration{}), Caps: 0,
			Gen: func(r *fw.Rand, uniq int) reflect.Value {
				if r.Chance(40) {
					return rv([2]time.Duration{}) // all elements zero
				}
				return rv([2]time.Duration{time.Duration(uniq) * time.Millisecond, 0})
			}},
		{Name: "[2]string", Type: reflect.TypeOf([2]string{}), Caps: 0,
			Gen: func(r *fw.Rand, uniq int) reflect.Value { return rv([2]string{GenString(r, uniq), "b"}) }},
		{Name: "*int", Type: reflect.TypeOf((*int)(nil)), Caps: CapRef,
			Gen: func(r *fw.Rand, uniq int) reflect.Value { x := uniq; return rv(&x) }},
		{Name: "*string", Type: reflect.TypeOf((*string)(nil)), Caps: CapRef,
			Gen: func(r *fw.Rand, uniq int) reflect.Value { x := GenString(r, uniq); return rv(&x) }},
		{Name: "*[]string", Type: reflect.TypeOf((*[]string)(nil)), Caps: CapRef,
			Gen: func(r *fw.Rand, uniq int) reflect.Value { x := []string{GenString(r, uniq)}; return rv(&x) }},
		{Name: "[]Elem", Type: reflect.TypeOf([]Elem{}), Caps: CapRef | CapFile,
			Gen: func(r *fw.Rand, uniq int) reflect.Value {
				l := []Elem{{X: uniq, Y: GenString(r, uniq)}, {X: -uniq}}
				for k := r.Intn(6); k > 0; k-- { // 2..7 elements: decoders grow their slices geometrically
					l = append(l, Elem{X: k})
				}
				return rv(l)
			}},
		{Name: "[]ElemT", Type: reflect.TypeOf([]ElemT{}), Caps: CapRef,
			Gen: func(r *fw.Rand, uniq int) reflect.Value {
				return rv([]ElemT{{When: time.Date(2001+uniq%20, 2, 3, 4, 5, 6, 0, time.UTC), N: uniq}, {N: -uniq}})
			}},
		{Name: "[]ElemEmb", Type: reflect.TypeOf([]ElemEmb{}), Caps: CapRef,
			Gen: func(r *fw.Rand, uniq int) reflect.Value {
				return rv([]ElemEmb{{EmbInner: EmbInner{A: GenString(r, uniq), B: uniq}, Z: 1}, {Z: -uniq}})
			}},
		{Name: "[]ElemHidden", Type: reflect.TypeOf([]ElemHidden{}), Caps: CapRef,
			Gen: func(r *fw.Rand, uniq int) reflect.Value {
				return rv([]ElemHidden{{X: uniq, Y: GenString(r, uniq)}})
			}},
		{Name: "[2]Elem", Type: reflect.TypeOf([2]Elem{}), Caps: 0,
			Gen: func(r *fw.Rand, uniq int) reflect.Value { return rv([2]Elem{{X: uniq}, {Y: GenString(r, uniq)}}) }},
		{Name: "[2]RefElem", Type: reflect.TypeOf([2]RefElem{}), Caps: CapRef,
			Gen: func(r *fw.Rand, uniq int) reflect.Value {
				return rv([2]RefElem{{Tags: map[string]int{"t": uniq}, W: []int{uniq, 1}}, {W: make([]int, 1, 3)}})
			}},
		{Name: "[2][1]*int", Type: reflect.TypeOf([2][1]*int{}), Caps: CapRef,
			Gen: func(r *fw.Rand, uniq int) reflect.Value { a, b := uniq, -uniq; return rv([2][1]*int{{&a}, {&b}}) }},
		{Name: "[]Backend", Type: reflect.TypeOf([]Backend{}), Caps: CapRef,
			Gen: func(r *fw.Rand, uniq int) reflect.Value {
				return rv([]Backend{{Name: GenString(r, uniq), Limits: &Limits{Max: uniq, Rate: 1.5}}, {Name: "n", Limits: &Limits{Max: 1}}})
			}},
		{Name: "turef", Type: reflect.TypeOf(TURef{}), Caps: CapRef | CapTextU,
			Gen: func(r *fw.Rand, uniq int) reflect.Value {
				x := uniq
				return rv(TURef{List: []string{GenString(r, uniq), "l"}, M: map[string]int{"m": uniq}, P: &x})
			}},
		// one inner map object under two keys
		{Name: "map[string]map[string]int", Type: reflect.TypeOf(map[string]map[string]int{}), Caps: CapRef,
			Gen: func(r *fw.Rand, uniq int) reflect.Value {
				inner := map[string]int{"i": uniq}
				m := map[string]map[string]int{"a": inner, "b": inner}
				if r.Bool() {
					m["c"] = map[string]int{"j": -uniq}
				}
				return rv(m)
			}},
		{Name: "opt", Type: reflect.TypeOf(Opt{}), Caps: CapFlag | CapTextU,
			Text: func(v reflect.Value) string { return v.Interface().(Opt).S },
			Gen: func(r *fw.Rand, uniq int) reflect.Value {
				if r.Chance(30) {
					return rv(Opt{S: "", Set: true})
				}
				return rv(Opt{S: "o" + strconv.Itoa(uniq), Set: true})
			}},
		{Name: "any", Type: reflect.TypeOf((*any)(nil)).Elem(), Caps: CapRef | CapIface,
			Gen: func(r *fw.Rand, uniq int) reflect.Value {
				var x any
				switch r.Intn(3) {
				case 0:
					x = []int{uniq, uniq + 1}
				case 1:
					x = map[string]int{"a": uniq}
				default:
					x = make([]string, 1, 4)
				}
				return reflect.ValueOf(&x).Elem()
			}},
		// named versions
		{Name: "Level", Type: reflect.TypeOf(Level(0)), Caps: CapEnv | CapFlag | CapNamed, Text: uintText,
			Gen: func(r *fw.Rand, uniq int) reflect.Value { return rv(Level(uniq%255 + 1)) }},
		{Name: "Name", Type: reflect.TypeOf(Name("")), Caps: CapEnv | CapFlag | CapNamed, Text: func(v reflect.Value) string { return v.String() },
			Gen: func(r *fw.Rand, uniq int) reflect.Value { return rv(Name(GenString(r, uniq))) }},
		{Name: "Ratio", Type: reflect.TypeOf(Ratio(0)), Caps: CapEnv | CapFlag | CapNamed, Text: floatText,
			Gen: func(r *fw.Rand, uniq int) reflect.Value { return rv(Ratio(float32(uniq) + 0.125)) }},
		{Name: "Mode", Type: reflect.TypeOf(Mode(0)), Caps: CapEnv | CapFlag | CapNamed, Text: intText,
			Gen: func(r *fw.Rand, uniq int) reflect.Value { return rv(Mode(-uniq)) }},
		{Name: "Flag", Type: reflect.TypeOf(Flag(false)), Caps: CapEnv | CapFlag | CapNamed, Text: func(v reflect.Value) string { return strconv.FormatBool(v.Bool()) },
			Gen: func(r *fw.Rand, uniq int) reflect.Value { return rv(Flag(uniq%2 == 1)) }},
		{Name: "Cx", Type: reflect.TypeOf(Cx(0)), Caps: CapEnv | CapFlag | CapNamed,
			Text: func(v reflect.Value) string { return strconv.FormatComplex(v.Complex(), 'g', -1, 64) },
			Gen:  func(r *fw.Rand, uniq int) reflect.Value { return rv(Cx(complex(float32(uniq), 1.5))) }},
		{Name: "Cx2", Type: reflect.TypeOf(Cx2(0)), Caps: CapEnv | CapFlag | CapNamed,
			Text: func(v reflect.Value) string { return strconv.FormatComplex(v.Complex(), 'g', -1, 128) },
			Gen:  func(r *fw.Rand, uniq int) reflect.Value { return rv(Cx2(complex(float64(uniq), -0.5))) }},
		// a named type over time.Duration is a plain named int64 to dials: integer text
		{Name: "Wait", Type: reflect.TypeOf(Wait(0)), Caps: CapEnv | CapFlag | CapNamed, Text: intText,
			Gen: func(r *fw.Rand, uniq int) reflect.Value { return rv(Wait(time.Duration(uniq) * time.Second)) }},
		{Name: "Names", Type: reflect.TypeOf(Names{}), Caps: CapEnv | CapNamed | CapRef,
			Text: func(v reflect.Value) string { return quoteList([]string(v.Interface().(Names))) },
			Gen:  func(r *fw.Rand, uniq int) reflect.Value { return rv(Names{GenString(r, uniq), "n"}) }},
		{Name: "Labels", Type: reflect.TypeOf(Labels{}), Caps: CapEnv | CapNamed | CapRef,
			Text: func(v reflect.Value) string {
				m := v.Interface().(Labels)
				keys := make([]string, 0, len(m))
				for k := range m {
					keys = append(keys, k)
				}
				sort.Strings(keys)
				p := []string{}
				for _, k := range keys {
					p = append(p, strconv.Quote(k)+":"+strconv.Quote(m[k]))
				}
				return strings.Join(p, ",")
			},
			Gen: func(r *fw.Rand, uniq int) reflect.Value {
				return rv(Labels{"l" + strconv.Itoa(uniq): GenString(r, uniq)})
			}},
		{Name: "Levels", Type: reflect.TypeOf(Levels{}), Caps: CapEnv | CapNamed | CapRef,
			Text: func(v reflect.Value) string {
				p := []string{}
				for _, x := range v.Interface().(Levels) {
					p = append(p, strconv.Itoa(int(x)))
				}
				return strings.Join(p, ",")
			},
			Gen: func(r *fw.Rand, uniq int) reflect.Value { return rv(Levels{Level(uniq % 250), 255}) }},
		{Name: "*TU", Type: reflect.TypeOf((*TU)(nil)), Caps: CapRef | CapTextU,
			Gen: func(r *fw.Rand, uniq int) reflect.Value { return rv(&TU{A: uniq, B: 1}) }},
		{Name: "*Level", Type: reflect.TypeOf((*Level)(nil)), Caps: CapRef | CapNamed,
			Gen: func(r *fw.Rand, uniq int) reflect.Value { x := Level(uniq % 200); return rv(&x) }},
		localNodePlainLeaf(), localNodeRefsLeaf(),
		// durations inside map values, with an entry whose value is nil (the key is still part of the value)
		{Name: "map[string][]duration", Type: reflect.TypeOf(map[string][]time.Duration{}), Caps: CapRef,
			Gen: func(r *fw.Rand, uniq int) reflect.Value {
				return rv(map[string][]time.Duration{"a": {time.Duration(uniq) * time.Second, time.Millisecond}, "none": nil})
			}},
		{Name: "map[string]*duration", Type: reflect.TypeOf(map[string]*time.Duration{}), Caps: CapRef,
			Gen: func(r *fw.Rand, uniq int) reflect.Value {
				d := time.Duration(uniq) * time.Second
				return rv(map[string]*time.Duration{"read": &d, "write": nil})
			}},
		// pointers to containers of a substituted type (the JSON/YAML duration substitution converts the pointee)
		{Name: "*[]duration", Type: reflect.TypeOf((*[]time.Duration)(nil)), Caps: CapRef,
			Gen: func(r *fw.Rand, uniq int) reflect.Value {
				x := []time.Duration{time.Duration(uniq) * time.Second, time.Millisecond}
				return rv(&x)
			}},
		{Name: "*map[string]duration", Type: reflect.TypeOf((*map[string]time.Duration)(nil)), Caps: CapRef,
			Gen: func(r *fw.Rand, uniq int) reflect.Value {
				x := map[string]time.Duration{"read": time.Duration(uniq) * time.Second}
				return rv(&x)
			}},
		// a map keyed by pointers: the keys are references too
		{Name: "map[*int]string", Type: reflect.TypeOf(map[*int]string{}), Caps: CapRef,
			Gen: func(r *fw.Rand, uniq int) reflect.Value {
				a, b := uniq, -uniq
				return rv(map[*int]string{&a: GenString(r, uniq), &b: "neg"})
			}},
		// a routing table: 150-250 entries pointing at 3 shared targets (many references to already-seen pointees)
		{Name: "[]*Limits(fan-in)", Type: reflect.TypeOf([]*Limits{}), Caps: CapRef,
			Gen: func(r *fw.Rand, uniq int) reflect.Value {
				targets := []*Limits{{Max: uniq, Rate: 1}, {Max: uniq + 1, Rate: 2}, {Max: uniq + 2, Rate: 3}}
				n := r.Range(150, 250)
				out := make([]*Limits, n)
				for k := range out {
					out[k] = targets[(k*7+uniq)%3]
				}
				return rv(out)
			}},
	}
	return ls
}

// Leaves is the default pool (everything except interface-typed leaves).
var Leaves = LeavesWith(0, CapIface)

// LeavesWith returns the leaf kinds having all of the caps (and none of without).
func LeavesWith(caps, without int) []*Leaf {
	var out []*Leaf
	for _, l := range AllLeaves {
		if l.Caps&caps == caps && l.Caps&without == 0 {
			out = append(out, l)
		}
	}
	return out
}
