package gen

import (
	"fmt"
	"reflect"
	"strings"

	"verifharness/fw"
)

// FieldKind classifies a struct field of a generated config type.
type FieldKind int

const (
	KLeaf FieldKind = iota
	KStruct
	KPtrStruct
	KEmbStruct
	KEmbPtrStruct
	KSkipUnexported
	KSkipDash
	KSkipChan
	KSkipFunc
)

func (k FieldKind) String() string {
	return [...]string{"leaf", "struct", "*struct", "embedded", "embedded*", "unexported", "dash", "chan", "func"}[k]
}

// Field is one field of a generated struct type.
type Field struct {
	Name  string
	Words []string
	Kind  FieldKind
	Leaf  *Leaf
	Sub   *Spec
	// Tags by key (dials, dialsenv, ...). TagWords are the words of the
	// `dials` tag when it was generated from words ("" style = verbatim).
	Tags     map[string]string
	TagWords []string
	TagStyle string
	Parent   *Spec
	Index    int
}

// Spec describes a generated struct type.
type Spec struct {
	Fields []*Field
	typ    reflect.Type
}

// IsSkipped reports whether dials skips the field.
func (f *Field) IsSkipped() bool { return f.Kind >= KSkipUnexported }

// IsStruct reports whether the field is a (pointer/embedded) struct dials merges field by field.
func (f *Field) IsStruct() bool { return f.Kind >= KStruct && f.Kind <= KEmbPtrStruct }

// IsPtr reports whether the struct field is held by pointer.
func (f *Field) IsPtr() bool { return f.Kind == KPtrStruct || f.Kind == KEmbPtrStruct }

// IsEmbedded reports whether the field is anonymous.
func (f *Field) IsEmbedded() bool { return f.Kind == KEmbStruct || f.Kind == KEmbPtrStruct }

// GenOpts parameterise type generation.
type GenOpts struct {
	MaxDepth   int
	MaxFields  int
	Leaves     []*Leaf
	SkipPct    int // chance of a skipped field at each position
	StructPct  int // chance a field is a nested struct (when depth allows)
	TagPct     int // chance of a dials tag on a field
	NoEmbedded bool
	NoPtr      bool
	// TagStyles to draw from: "snake","kebab","lowerCamel","UpperCamel"
	TagStyles []string
	// InitialismPct for name words.
	InitialismPct int
	// SingleLetterPct: chance a name is a single-letter word (X, N).
	SingleLetterPct int
	// UnicodePct: chance a name (or tag) gets a word with non-ASCII letters.
	UnicodePct int
	// HollowPct: chance a nested struct has no exported field at all (only
	// skipped fields, or none): e.g. an embedded mutex or bookkeeping struct.
	HollowPct int
}

type nameSet struct {
	used map[string]bool
}

func (ns *nameSet) fresh(r *fw.Rand, o *GenOpts) []string {
	for tries := 0; ; tries++ {
		var ws []string
		if r.Chance(o.SingleLetterPct) {
			ws = []string{string(rune('a' + r.Intn(26)))}
		} else {
			ws = MaybeUnicode(r, RandomWords(r, r.Range(1, 3), o.InitialismPct), o.UnicodePct)
		}
		if tries > 50 {
			ws = append(ws, fmt.Sprintf("x%d", len(ns.used)))
		}
		key := strings.Join(ws, "")
		if ns.used[key] || !UniqueSegmentation(ws) || KnownC19Finding(ws) {
			continue
		}
		ns.used[key] = true
		return ws
	}
}

// RandomSpec draws a struct type description.
func RandomSpec(r *fw.Rand, o GenOpts) *Spec {
	if o.MaxFields == 0 {
		o.MaxFields = 6
	}
	if len(o.Leaves) == 0 {
		o.Leaves = Leaves
	}
	if len(o.TagStyles) == 0 {
		o.TagStyles = []string{"snake", "kebab", "lowerCamel", "UpperCamel"}
	}
	ns := &nameSet{used: map[string]bool{}}
	return randomSpec(r, &o, ns, 0)
}

func randomSpec(r *fw.Rand, o *GenOpts, ns *nameSet, depth int) *Spec {
	s := &Spec{}
	n := r.Range(1, o.MaxFields)
	exported := 0
	for i := 0; i < n; i++ {
		f := &Field{Parent: s, Index: len(s.Fields), Tags: map[string]string{}}
		f.Words = ns.fresh(r, o)
		f.Name = GoName(f.Words)
		switch {
		case r.Chance(o.SkipPct):
			f.Kind = FieldKind(int(KSkipUnexported) + r.Intn(4))
			switch f.Kind {
			case KSkipUnexported:
				f.Name = "h" + strings.ToLower(f.Name)
				f.Leaf = fw.Pick(r, []*Leaf{LeafByName("int"), LeafByName("string"), LeafByName("[]string")})
			case KSkipDash:
				f.Leaf = fw.Pick(r, o.Leaves)
				f.Tags["dials"] = "-"
			}
		case depth < o.MaxDepth && r.Chance(o.StructPct):
			kinds := []FieldKind{KStruct, KStruct}
			if !o.NoPtr {
				kinds = append(kinds, KPtrStruct)
			}
			if !o.NoEmbedded {
				kinds = append(kinds, KEmbStruct)
				if !o.NoPtr {
					kinds = append(kinds, KEmbPtrStruct)
				}
			}
			f.Kind = fw.Pick(r, kinds)
			if r.Chance(o.HollowPct) {
				f.Sub = hollowSpec(r, ns, o)
			} else {
				f.Sub = randomSpec(r, o, ns, depth+1)
			}
			exported++
		default:
			f.Kind = KLeaf
			f.Leaf = fw.Pick(r, o.Leaves)
			exported++
		}
		if !f.IsSkipped() && !f.IsEmbedded() && r.Chance(o.TagPct) {
			f.TagWords = MaybeUnicode(r, RandomWords(r, r.Range(1, 2), o.InitialismPct/2), o.UnicodePct)
			if !UniqueSegmentation(f.TagWords) {
				f.TagWords = []string{fw.Pick(r, OrdinaryWords), fmt.Sprintf("t%d", len(ns.used))}
			}
			// make the tag unique as well
			key := "tag:" + strings.Join(f.TagWords, "_")
			for ns.used[key] {
				f.TagWords = append(f.TagWords, fw.Pick(r, OrdinaryWords))
				key = "tag:" + strings.Join(f.TagWords, "_")
			}
			ns.used[key] = true
			f.TagStyle = fw.Pick(r, o.TagStyles)
			if strings.HasSuffix(f.TagStyle, "Camel") {
				// a camel-cased word ending in a digit followed by another word (utf8Io) has no
				// well-defined split (digits are outside the statement's vocabulary): use snake there
				for _, wd := range f.TagWords[:len(f.TagWords)-1] {
					if c := wd[len(wd)-1]; c >= '0' && c <= '9' {
						f.TagStyle = "snake"
					}
				}
			}
			f.Tags["dials"] = StyleWords(f.TagStyle, f.TagWords)
		}
		s.Fields = append(s.Fields, f)
	}
	if exported == 0 {
		f := &Field{Parent: s, Index: len(s.Fields), Tags: map[string]string{}, Kind: KLeaf, Leaf: fw.Pick(r, o.Leaves)}
		f.Words = ns.fresh(r, o)
		f.Name = GoName(f.Words)
		s.Fields = append(s.Fields, f)
	}
	return s
}

// hollowSpec: a struct type with nothing dials exposes.
func hollowSpec(r *fw.Rand, ns *nameSet, o *GenOpts) *Spec {
	s := &Spec{}
	for n := r.Intn(3); n > 0; n-- {
		f := &Field{Parent: s, Index: len(s.Fields), Tags: map[string]string{}}
		f.Words = ns.fresh(r, o)
		f.Name = GoName(f.Words)
		f.Kind = FieldKind(int(KSkipUnexported) + r.Intn(4))
		switch f.Kind {
		case KSkipUnexported:
			f.Name = "h" + strings.ToLower(f.Name)
			f.Leaf = LeafByName("int")
		case KSkipDash:
			f.Leaf = LeafByName("string")
			f.Tags["dials"] = "-"
		}
		s.Fields = append(s.Fields, f)
	}
	return s
}

// StyleWords renders words in a tag casing style.
func StyleWords(style string, words []string) string {
	switch style {
	case "kebab":
		return Kebab(words)
	case "lowerCamel":
		return LowerCamel(words)
	case "UpperCamel":
		return UpperCamel(words)
	}
	return LowerSnake(words)
}

func (f *Field) structTag() reflect.StructTag {
	if len(f.Tags) == 0 {
		return ""
	}
	keys := make([]string, 0, len(f.Tags))
	for k := range f.Tags {
		keys = append(keys, k)
	}
	// deterministic order
	for i := 1; i < len(keys); i++ {
		for j := i; j > 0 && keys[j] < keys[j-1]; j-- {
			keys[j], keys[j-1] = keys[j-1], keys[j]
		}
	}
	var b strings.Builder
	for i, k := range keys {
		if i > 0 {
			b.WriteByte(' ')
		}
		fmt.Fprintf(&b, "%s:%q", k, f.Tags[k])
	}
	return reflect.StructTag(b.String())
}

var (
	chanType = reflect.TypeOf(make(chan int))
	funcType = reflect.TypeOf(func() {})
)

// Type builds (and caches) the reflect type.
func (s *Spec) Type() reflect.Type {
	if s.typ != nil {
		return s.typ
	}
	fields := make([]reflect.StructField, 0, len(s.Fields))
	for _, f := range s.Fields {
		sf := reflect.StructField{Name: f.Name, Tag: f.structTag()}
		switch f.Kind {
		case KLeaf, KSkipDash:
			sf.Type = f.Leaf.Type
		case KSkipUnexported:
			sf.Type = f.Leaf.Type
			sf.PkgPath = "verifharness/gen"
		case KSkipChan:
			sf.Type = chanType
		case KSkipFunc:
			sf.Type = funcType
		case KStruct:
			sf.Type = f.Sub.Type()
		case KPtrStruct:
			sf.Type = reflect.PtrTo(f.Sub.Type())
		case KEmbStruct:
			sf.Type = f.Sub.Type()
			sf.Anonymous = true
		case KEmbPtrStruct:
			sf.Type = reflect.PtrTo(f.Sub.Type())
			sf.Anonymous = true
		}
		fields = append(fields, sf)
	}
	s.typ = reflect.StructOf(fields)
	return s.typ
}

// LeafRef is a path from the root to a settable leaf.
type LeafRef struct {
	Path []*Field // last one is the leaf
}

// Leaf returns the leaf field.
func (l *LeafRef) Leaf() *Field { return l.Path[len(l.Path)-1] }

// String renders the path.
func (l *LeafRef) String() string {
	p := make([]string, len(l.Path))
	for i, f := range l.Path {
		p[i] = f.Name
	}
	return strings.Join(p, ".") + ":" + l.Leaf().Leaf.Name
}

// LeafRefs lists all settable leaves (depth first, declaration order).
func (s *Spec) LeafRefs() []*LeafRef {
	var out []*LeafRef
	var walk func(sp *Spec, prefix []*Field)
	walk = func(sp *Spec, prefix []*Field) {
		for _, f := range sp.Fields {
			p := append(append([]*Field{}, prefix...), f)
			switch {
			case f.Kind == KLeaf:
				out = append(out, &LeafRef{Path: p})
			case f.IsStruct():
				walk(f.Sub, p)
			}
		}
	}
	walk(s, nil)
	return out
}

// Describe renders the type compactly (for samples and replay witnesses).
func (s *Spec) Describe() string {
	var b strings.Builder
	b.WriteString("{")
	for i, f := range s.Fields {
		if i > 0 {
			b.WriteString("; ")
		}
		b.WriteString(f.Name)
		b.WriteByte(' ')
		switch {
		case f.Kind == KLeaf:
			b.WriteString(f.Leaf.Name)
		case f.IsStruct():
			b.WriteString(f.Kind.String())
			b.WriteString(f.Sub.Describe())
		default:
			b.WriteString("<" + f.Kind.String() + ">")
		}
		if t := f.Tags["dials"]; t != "" {
			fmt.Fprintf(&b, " `%s`", t)
		}
	}
	b.WriteString("}")
	return b.String()
}

// Signature is a shape signature (kinds only, no names) for distinct counting.
func (s *Spec) Signature() string {
	var b strings.Builder
	b.WriteString("{")
	for _, f := range s.Fields {
		switch {
		case f.Kind == KLeaf:
			b.WriteString(f.Leaf.Name)
		case f.IsStruct():
			b.WriteString(f.Kind.String())
			b.WriteString(f.Sub.Signature())
		default:
			b.WriteString("<" + f.Kind.String() + ">")
		}
		b.WriteString(",")
	}
	b.WriteString("}")
	return b.String()
}

// ---------------------------------------------------------------------------
// values

// Counter hands out case-local unique numbers.
type Counter struct{ n int }

// Next returns the next unique number (>=1).
func (c *Counter) Next() int { c.n++; return c.n }

// RandomDefaults builds a defaults value of the spec's type: each leaf is
// set with probability setPct (else zero); *struct fields are allocated with
// probability 50; skipped fields get recognisable values.
func (s *Spec) RandomDefaults(r *fw.Rand, c *Counter, setPct int) reflect.Value {
	v := reflect.New(s.Type()).Elem()
	s.fillDefaults(r, c, setPct, v)
	return v
}

func (s *Spec) fillDefaults(r *fw.Rand, c *Counter, setPct int, v reflect.Value) {
	for i, f := range s.Fields {
		fv := v.Field(i)
		switch f.Kind {
		case KLeaf, KSkipDash:
			if r.Chance(setPct) {
				fv.Set(GenLeafValue(r, c, f.Leaf))
			}
		case KSkipUnexported:
			// cannot be set through reflect; stays zero
		case KSkipChan:
			fv.Set(reflect.MakeChan(chanType, 1))
		case KSkipFunc:
			fv.Set(reflect.ValueOf(func() {}))
		case KStruct, KEmbStruct:
			f.Sub.fillDefaults(r, c, setPct, fv)
		case KPtrStruct, KEmbPtrStruct:
			if r.Chance(50) {
				p := reflect.New(f.Sub.Type())
				f.Sub.fillDefaults(r, c, setPct, p.Elem())
				fv.Set(p)
			}
		}
	}
}

// Layer is a partial assignment of leaves.
type Layer struct {
	Vals map[*LeafRef]reflect.Value
}

// GenLeafValue draws a value for a leaf; maps and slices are occasionally
// empty but non-nil (a "set" value with nothing in it).
func GenLeafValue(r *fw.Rand, c *Counter, lf *Leaf) reflect.Value {
	if lf.Caps&CapTextU == 0 && r.Chance(6) {
		switch lf.Type.Kind() {
		case reflect.Slice:
			return reflect.MakeSlice(lf.Type, 0, r.Intn(3))
		case reflect.Map:
			return reflect.MakeMap(lf.Type)
		}
	}
	return lf.Gen(r, c.Next())
}

// RandomLayer sets each leaf with probability setPct.
func RandomLayer(r *fw.Rand, c *Counter, leaves []*LeafRef, setPct int) *Layer {
	l := &Layer{Vals: map[*LeafRef]reflect.Value{}}
	for _, lr := range leaves {
		if r.Chance(setPct) {
			l.Vals[lr] = GenLeafValue(r, c, lr.Leaf().Leaf)
		}
	}
	return l
}

// fieldByPath navigates v (a value of the spec's type or of its pointerified
// type) along path by field NAME, allocating nil pointers on the way when
// alloc is set. Returns the zero Value if a nil pointer blocks the way.
func fieldByPath(v reflect.Value, path []*Field, alloc bool) reflect.Value {
	for _, f := range path {
		for v.Kind() == reflect.Ptr {
			if v.IsNil() {
				if !alloc {
					return reflect.Value{}
				}
				v.Set(reflect.New(v.Type().Elem()))
			}
			v = v.Elem()
		}
		v = v.FieldByName(f.Name)
		if !v.IsValid() {
			panic("harness: field " + f.Name + " not found by name")
		}
	}
	return v
}

// Materialize builds the layer as a value of ptrType (the pointerified type
// dials hands to sources), addressing fields by name.
func (l *Layer) Materialize(ptrType reflect.Type) reflect.Value {
	v := reflect.New(ptrType).Elem()
	for lr, val := range l.Vals {
		fv := fieldByPath(v, lr.Path, true)
		setPointerified(fv, val)
	}
	return v
}

// setPointerified stores val into a field of the pointerified type: either
// the field has val's type (slices, maps, user pointers) or it is a pointer to it.
func setPointerified(fv reflect.Value, val reflect.Value) {
	switch {
	case fv.Type() == val.Type():
		fv.Set(CloneValue(val))
	case fv.Kind() == reflect.Ptr && fv.Type().Elem() == val.Type():
		p := reflect.New(val.Type())
		p.Elem().Set(CloneValue(val))
		fv.Set(p)
	default:
		panic(fmt.Sprintf("harness: cannot store %s into pointerified field of type %s", val.Type(), fv.Type()))
	}
}

// ApplyLayer applies the layer to a value of the spec's own type (the
// reference stack's step): each set leaf is assigned; nil *struct on the way
// are allocated.
func (l *Layer) ApplyTo(v reflect.Value) {
	for lr, val := range l.Vals {
		fv := fieldByPath(v, lr.Path, true)
		fv.Set(CloneValue(val))
	}
}

// ReferenceStack computes the expected stacked value: a clone of defaults
// with each layer applied in order.
func ReferenceStack(defaults reflect.Value, layers []*Layer) reflect.Value {
	out := reflect.New(defaults.Type()).Elem()
	out.Set(CloneValue(defaults))
	for _, l := range layers {
		l.ApplyTo(out)
	}
	return out
}

// SpecFromType describes an existing (static) struct type as a Spec so that
// the by-name helpers work on it. Leaf types must be in the Leaves pool.
func SpecFromType(t reflect.Type) *Spec {
	s := &Spec{typ: t}
	for i := 0; i < t.NumField(); i++ {
		sf := t.Field(i)
		f := &Field{Name: sf.Name, Parent: s, Index: i, Tags: map[string]string{}}
		if v, ok := sf.Tag.Lookup("dials"); ok {
			f.Tags["dials"] = v
		}
		switch {
		case sf.PkgPath != "":
			f.Kind = KSkipUnexported
		case sf.Tag.Get("dials") == "-":
			f.Kind = KSkipDash
		case sf.Type.Kind() == reflect.Struct && leafForType(sf.Type) == nil:
			f.Kind = KStruct
			if sf.Anonymous {
				f.Kind = KEmbStruct
			}
			f.Sub = SpecFromType(sf.Type)
		case sf.Type.Kind() == reflect.Ptr && sf.Type.Elem().Kind() == reflect.Struct && leafForType(sf.Type) == nil:
			f.Kind = KPtrStruct
			if sf.Anonymous {
				f.Kind = KEmbPtrStruct
			}
			f.Sub = SpecFromType(sf.Type.Elem())
		default:
			f.Kind = KLeaf
			f.Leaf = leafForType(sf.Type)
			if f.Leaf == nil {
				panic("harness: no leaf kind for " + sf.Type.String())
			}
		}
		s.Fields = append(s.Fields, f)
	}
	return s
}

func leafForType(t reflect.Type) *Leaf {
	for _, l := range Leaves {
		if l.Type == t {
			return l
		}
	}
	return nil
}

// FlattenedNamesDistinct reports whether the leaves have pairwise distinct
// flattened Go names (concatenation of the non-embedded path names, also
// compared case-insensitively): the precondition of every flatten-based source.
func FlattenedNamesDistinct(leaves []*LeafRef) bool {
	seen := map[string]bool{}
	for _, lr := range leaves {
		n := ""
		for _, f := range lr.Path {
			if !f.IsEmbedded() {
				n += f.Name
			}
		}
		n = strings.ToLower(n)
		if seen[n] {
			return false
		}
		seen[n] = true
	}
	return true
}
