package gen

import (
	"fmt"
	"reflect"
	"sort"
)

// Region is a piece of mutable memory reachable from a value through
// exported fields: a pointer target, a slice backing array, or a map.
type Region struct {
	Lo, Hi uintptr // [Lo,Hi) for pointers and slices; Lo==Hi==map header address for maps
	IsMap  bool
	Path   string
}

// Regions walks v and collects every mutable region reachable through
// exported fields. Zero-size objects are skipped (they all share
// runtime.zerobase); strings are immutable; chan and func values keep their
// identity by design; time.Time's internals are unexported.
func Regions(v reflect.Value) []Region {
	var out []Region
	seen := map[uintptr]bool{}
	var walk func(v reflect.Value, path string, depth int)
	walk = func(v reflect.Value, path string, depth int) {
		if !v.IsValid() || depth > 40 {
			return
		}
		switch v.Kind() {
		case reflect.Ptr:
			if v.IsNil() {
				return
			}
			sz := v.Type().Elem().Size()
			p := v.Pointer()
			if sz > 0 {
				out = append(out, Region{Lo: p, Hi: p + sz, Path: path})
			}
			if seen[p] && sz > 0 {
				return
			}
			seen[p] = true
			walk(v.Elem(), path+"*", depth+1)
		case reflect.Interface:
			if !v.IsNil() {
				walk(v.Elem(), path+"(i)", depth+1)
			}
		case reflect.Map:
			if v.IsNil() {
				return
			}
			p := v.Pointer()
			out = append(out, Region{Lo: p, Hi: p, IsMap: true, Path: path})
			if seen[p] {
				return
			}
			seen[p] = true
			it := v.MapRange()
			for it.Next() {
				walk(it.Key(), path+"[key]", depth+1)
				walk(it.Value(), fmt.Sprintf("%s[%v]", path, it.Key()), depth+1)
			}
		case reflect.Slice:
			if v.IsNil() {
				return
			}
			sz := v.Type().Elem().Size()
			if v.Cap() > 0 && sz > 0 {
				p := v.Pointer()
				out = append(out, Region{Lo: p, Hi: p + uintptr(v.Cap())*sz, Path: path})
			}
			for i := 0; i < v.Len(); i++ {
				walk(v.Index(i), fmt.Sprintf("%s[%d]", path, i), depth+1)
			}
		case reflect.Array:
			for i := 0; i < v.Len(); i++ {
				walk(v.Index(i), fmt.Sprintf("%s[%d]", path, i), depth+1)
			}
		case reflect.Struct:
			if v.Type() == timeType {
				return
			}
			for i := 0; i < v.NumField(); i++ {
				if f := v.Type().Field(i); f.PkgPath != "" && !(f.Anonymous && f.Type.Kind() == reflect.Struct) {
					// (an embedded struct of an unexported type is descended into: its exported fields are promoted)
					continue
				}
				walk(v.Field(i), path+"."+v.Type().Field(i).Name, depth+1)
			}
		}
	}
	walk(v, "", 0)
	return out
}

// Overlap returns a description of the first region shared by a and b ("" if disjoint).
func Overlap(a, b []Region) string {
	maps := map[uintptr]string{}
	var ia []Region
	for _, r := range a {
		if r.IsMap {
			maps[r.Lo] = r.Path
		} else {
			ia = append(ia, r)
		}
	}
	sort.Slice(ia, func(i, j int) bool { return ia[i].Lo < ia[j].Lo })
	// prefix maximum of Hi for interval stabbing
	maxHi := make([]uintptr, len(ia))
	var m uintptr
	for i, r := range ia {
		if r.Hi > m {
			m = r.Hi
		}
		maxHi[i] = m
	}
	for _, r := range b {
		if r.IsMap {
			if p, ok := maps[r.Lo]; ok {
				return fmt.Sprintf("map shared: %s and %s", p, r.Path)
			}
			continue
		}
		// find intervals in ia with Lo < r.Hi and Hi > r.Lo
		k := sort.Search(len(ia), func(i int) bool { return ia[i].Lo >= r.Hi })
		for j := k - 1; j >= 0; j-- {
			if maxHi[j] <= r.Lo {
				break
			}
			if ia[j].Hi > r.Lo {
				return fmt.Sprintf("memory shared: %s [%#x,%#x) and %s [%#x,%#x)", ia[j].Path, ia[j].Lo, ia[j].Hi, r.Path, r.Lo, r.Hi)
			}
		}
	}
	return ""
}

// Scribble writes through every pointer, map and slice reachable from v
// (exported fields only): the behavioural cross-check of the alias walker.
func Scribble(v reflect.Value) int {
	n := 0
	seen := map[uintptr]bool{}
	var walk func(v reflect.Value, depth int)
	scramble := func(x reflect.Value) {
		if !x.CanSet() {
			return
		}
		switch x.Kind() {
		case reflect.Int, reflect.Int8, reflect.Int16, reflect.Int32, reflect.Int64:
			x.SetInt(x.Int() ^ 0x55)
			n++
		case reflect.Uint, reflect.Uint8, reflect.Uint16, reflect.Uint32, reflect.Uint64, reflect.Uintptr:
			x.SetUint(x.Uint() ^ 0x55)
			n++
		case reflect.String:
			x.SetString(x.String() + "#scribbled")
			n++
		case reflect.Bool:
			x.SetBool(!x.Bool())
			n++
		case reflect.Float32, reflect.Float64:
			x.SetFloat(x.Float() + 1)
			n++
		}
	}
	walk = func(v reflect.Value, depth int) {
		if !v.IsValid() || depth > 40 {
			return
		}
		switch v.Kind() {
		case reflect.Ptr:
			if v.IsNil() || seen[v.Pointer()] {
				return
			}
			seen[v.Pointer()] = true
			scramble(v.Elem())
			walk(v.Elem(), depth+1)
		case reflect.Interface:
			if !v.IsNil() {
				walk(v.Elem(), depth+1)
			}
		case reflect.Map:
			if v.IsNil() || seen[v.Pointer()] {
				return
			}
			seen[v.Pointer()] = true
			it := v.MapRange()
			var keys []reflect.Value
			for it.Next() {
				keys = append(keys, it.Key())
				walk(it.Value(), depth+1)
			}
			for _, k := range keys {
				v.SetMapIndex(k, reflect.Value{}) // delete
				n++
			}
			if v.Type().Key().Kind() == reflect.String {
				v.SetMapIndex(reflect.ValueOf("#scribbled").Convert(v.Type().Key()), reflect.Zero(v.Type().Elem()))
				n++
			}
		case reflect.Slice:
			if v.IsNil() {
				return
			}
			full := v.Slice(0, v.Cap())
			for i := 0; i < full.Len(); i++ {
				scramble(full.Index(i))
				walk(full.Index(i), depth+1)
			}
		case reflect.Array:
			for i := 0; i < v.Len(); i++ {
				scramble(v.Index(i))
				walk(v.Index(i), depth+1)
			}
		case reflect.Struct:
			if v.Type() == timeType {
				return
			}
			for i := 0; i < v.NumField(); i++ {
				if f := v.Type().Field(i); f.PkgPath != "" && !(f.Anonymous && f.Type.Kind() == reflect.Struct) {
					// (an embedded struct of an unexported type is descended into: its exported fields are promoted)
					continue
				}
				f := v.Field(i)
				if v.CanAddr() {
					scramble(f)
				}
				walk(f, depth+1)
			}
		}
	}
	walk(v, 0)
	return n
}

// ReadAll reads every word reachable from v (for the race-detector oracle) and returns a checksum.
func ReadAll(v reflect.Value) uint64 {
	var sum uint64
	seen := map[uintptr]bool{}
	var walk func(v reflect.Value, depth int)
	walk = func(v reflect.Value, depth int) {
		if !v.IsValid() || depth > 40 {
			return
		}
		switch v.Kind() {
		case reflect.Ptr:
			if v.IsNil() || seen[v.Pointer()] {
				return
			}
			seen[v.Pointer()] = true
			walk(v.Elem(), depth+1)
		case reflect.Interface:
			if !v.IsNil() {
				walk(v.Elem(), depth+1)
			}
		case reflect.Map:
			if v.IsNil() {
				return
			}
			it := v.MapRange()
			for it.Next() {
				walk(it.Key(), depth+1)
				walk(it.Value(), depth+1)
			}
			sum += uint64(v.Len())
		case reflect.Slice:
			if v.IsNil() {
				return
			}
			full := v.Slice(0, v.Cap())
			for i := 0; i < full.Len(); i++ {
				walk(full.Index(i), depth+1)
			}
		case reflect.Array:
			for i := 0; i < v.Len(); i++ {
				walk(v.Index(i), depth+1)
			}
		case reflect.Struct:
			if v.Type() == timeType {
				return
			}
			for i := 0; i < v.NumField(); i++ {
				if f := v.Type().Field(i); f.PkgPath != "" && !(f.Anonymous && f.Type.Kind() == reflect.Struct) {
					// (an embedded struct of an unexported type is descended into: its exported fields are promoted)
					continue
				}
				walk(v.Field(i), depth+1)
			}
		case reflect.Int, reflect.Int8, reflect.Int16, reflect.Int32, reflect.Int64:
			sum += uint64(v.Int())
		case reflect.Uint, reflect.Uint8, reflect.Uint16, reflect.Uint32, reflect.Uint64, reflect.Uintptr:
			sum += v.Uint()
		case reflect.String:
			sum += uint64(len(v.String()))
		case reflect.Bool:
			if v.Bool() {
				sum++
			}
		case reflect.Float32, reflect.Float64:
			sum += uint64(v.Float())
		}
	}
	walk(v, 0)
	return sum
}
