package gen

import (
	"fmt"
	"math"
	"reflect"
	"time"
)

var timeType = reflect.TypeOf(time.Time{})

// CloneValue is the harness's own deep cloner (independent of dials'):
// pointers, maps, slices (capacity preserved), arrays, structs (unexported
// fields copied shallowly), interfaces; chan and func keep identity.
func CloneValue(v reflect.Value) reflect.Value {
	return cloneValue(v, map[uintptr]reflect.Value{})
}

func cloneValue(v reflect.Value, seen map[uintptr]reflect.Value) reflect.Value {
	if !v.IsValid() {
		return v
	}
	switch v.Kind() {
	case reflect.Ptr:
		if v.IsNil() {
			return reflect.Zero(v.Type())
		}
		if o, ok := seen[v.Pointer()]; ok && o.Type() == v.Type() {
			return o
		}
		out := reflect.New(v.Type().Elem())
		seen[v.Pointer()] = out
		out.Elem().Set(cloneValue(v.Elem(), seen))
		return out
	case reflect.Map:
		if v.IsNil() {
			return reflect.Zero(v.Type())
		}
		out := reflect.MakeMapWithSize(v.Type(), v.Len())
		it := v.MapRange()
		for it.Next() {
			out.SetMapIndex(cloneValue(it.Key(), seen), cloneValue(it.Value(), seen))
		}
		return out
	case reflect.Slice:
		if v.IsNil() {
			return reflect.Zero(v.Type())
		}
		out := reflect.MakeSlice(v.Type(), v.Len(), v.Cap())
		for i := 0; i < v.Len(); i++ {
			out.Index(i).Set(cloneValue(v.Index(i), seen))
		}
		return out
	case reflect.Array:
		out := reflect.New(v.Type()).Elem()
		for i := 0; i < v.Len(); i++ {
			out.Index(i).Set(cloneValue(v.Index(i), seen))
		}
		return out
	case reflect.Struct:
		out := reflect.New(v.Type()).Elem()
		out.Set(v) // unexported fields shallowly
		if v.Type() == timeType {
			return out
		}
		for i := 0; i < v.NumField(); i++ {
			if v.Type().Field(i).PkgPath != "" {
				continue
			}
			out.Field(i).Set(cloneValue(v.Field(i), seen))
		}
		return out
	case reflect.Interface:
		if v.IsNil() {
			return reflect.Zero(v.Type())
		}
		out := reflect.New(v.Type()).Elem()
		out.Set(cloneValue(v.Elem(), seen))
		return out
	default:
		return v
	}
}

// Diff compares two values strictly (floats bitwise, nil and empty
// collections distinct, funcs/chans by identity, time.Time by instant) and
// returns "" or the path and description of the first difference.
func Diff(a, b reflect.Value) string {
	return diff(a, b, "", 0)
}

func diff(a, b reflect.Value, path string, depth int) string {
	if depth > 64 {
		return ""
	}
	if a.IsValid() != b.IsValid() {
		return fmt.Sprintf("%s: validity differs", path)
	}
	if !a.IsValid() {
		return ""
	}
	if a.Type() != b.Type() {
		return fmt.Sprintf("%s: type %s vs %s", path, a.Type(), b.Type())
	}
	switch a.Kind() {
	case reflect.Float32, reflect.Float64:
		if math.Float64bits(a.Float()) != math.Float64bits(b.Float()) {
			return fmt.Sprintf("%s: %v vs %v", path, a.Float(), b.Float())
		}
	case reflect.Complex64, reflect.Complex128:
		x, y := a.Complex(), b.Complex()
		if math.Float64bits(real(x)) != math.Float64bits(real(y)) || math.Float64bits(imag(x)) != math.Float64bits(imag(y)) {
			return fmt.Sprintf("%s: %v vs %v", path, x, y)
		}
	case reflect.Func:
		if a.IsNil() != b.IsNil() || (!a.IsNil() && a.Pointer() != b.Pointer()) {
			return fmt.Sprintf("%s: func identity differs", path)
		}
	case reflect.Chan:
		if a.IsNil() != b.IsNil() || (!a.IsNil() && a.Pointer() != b.Pointer()) {
			return fmt.Sprintf("%s: chan identity differs", path)
		}
	case reflect.Ptr:
		if a.IsNil() != b.IsNil() {
			return fmt.Sprintf("%s: nil=%v vs nil=%v", path, a.IsNil(), b.IsNil())
		}
		if !a.IsNil() {
			return diff(a.Elem(), b.Elem(), path+"*", depth+1)
		}
	case reflect.Interface:
		if a.IsNil() != b.IsNil() {
			return fmt.Sprintf("%s: nil=%v vs nil=%v", path, a.IsNil(), b.IsNil())
		}
		if !a.IsNil() {
			return diff(a.Elem(), b.Elem(), path+"(iface)", depth+1)
		}
	case reflect.Slice:
		if a.IsNil() != b.IsNil() {
			return fmt.Sprintf("%s: nil=%v vs nil=%v", path, a.IsNil(), b.IsNil())
		}
		if a.Len() != b.Len() {
			return fmt.Sprintf("%s: len %d vs %d", path, a.Len(), b.Len())
		}
		for i := 0; i < a.Len(); i++ {
			if d := diff(a.Index(i), b.Index(i), fmt.Sprintf("%s[%d]", path, i), depth+1); d != "" {
				return d
			}
		}
	case reflect.Array:
		for i := 0; i < a.Len(); i++ {
			if d := diff(a.Index(i), b.Index(i), fmt.Sprintf("%s[%d]", path, i), depth+1); d != "" {
				return d
			}
		}
	case reflect.Map:
		if a.IsNil() != b.IsNil() {
			return fmt.Sprintf("%s: nil=%v vs nil=%v", path, a.IsNil(), b.IsNil())
		}
		if a.Len() != b.Len() {
			return fmt.Sprintf("%s: len %d vs %d", path, a.Len(), b.Len())
		}
		if a.Type().Key().Kind() == reflect.Ptr {
			// pointer keys: entries are matched by what the keys point at (copies have keys of their own)
			used := map[int]bool{}
			bkeys := b.MapKeys()
			ita := a.MapRange()
			for ita.Next() {
				found := false
				for k, bk := range bkeys {
					if used[k] || diff(ita.Key(), bk, path+"[key]", depth+1) != "" {
						continue
					}
					if d := diff(ita.Value(), b.MapIndex(bk), fmt.Sprintf("%s[*key]", path), depth+1); d != "" {
						return d
					}
					used[k], found = true, true
					break
				}
				if !found {
					return fmt.Sprintf("%s: no key equal to %v", path, ita.Key().Elem())
				}
			}
			return ""
		}
		it := a.MapRange()
		for it.Next() {
			bv := b.MapIndex(it.Key())
			if !bv.IsValid() {
				return fmt.Sprintf("%s: key %v missing", path, it.Key())
			}
			if d := diff(it.Value(), bv, fmt.Sprintf("%s[%v]", path, it.Key()), depth+1); d != "" {
				return d
			}
		}
	case reflect.Struct:
		if a.Type() == timeType {
			if a.CanInterface() && b.CanInterface() {
				if !a.Interface().(time.Time).Equal(b.Interface().(time.Time)) {
					return fmt.Sprintf("%s: time %v vs %v", path, a.Interface(), b.Interface())
				}
			}
			return ""
		}
		for i := 0; i < a.NumField(); i++ {
			if d := diff(a.Field(i), b.Field(i), path+"."+a.Type().Field(i).Name, depth+1); d != "" {
				return d
			}
		}
	case reflect.String:
		if a.String() != b.String() {
			return fmt.Sprintf("%s: %q vs %q", path, a.String(), b.String())
		}
	case reflect.Bool:
		if a.Bool() != b.Bool() {
			return fmt.Sprintf("%s: %v vs %v", path, a.Bool(), b.Bool())
		}
	case reflect.Int, reflect.Int8, reflect.Int16, reflect.Int32, reflect.Int64:
		if a.Int() != b.Int() {
			return fmt.Sprintf("%s: %d vs %d", path, a.Int(), b.Int())
		}
	case reflect.Uint, reflect.Uint8, reflect.Uint16, reflect.Uint32, reflect.Uint64, reflect.Uintptr:
		if a.Uint() != b.Uint() {
			return fmt.Sprintf("%s: %d vs %d", path, a.Uint(), b.Uint())
		}
	}
	return ""
}
