// Package gen holds the seeded generators shared by the checks: names with
// known word boundaries, struct types, values, layers.
package gen

import (
	"strings"
	"unicode/utf8"

	"verifharness/fw"
)

// Initialisms is the harness's own copy of the golint initialism list (the
// one the property statement refers to); deliberately not imported from dials.
var Initialisms = []string{"ACL", "API", "ASCII", "CPU", "CSS", "DNS", "EOF", "GUID", "HTML", "HTTP", "HTTPS", "ID", "IP", "JSON", "LHS", "QPS", "RAM", "RHS", "RPC", "SLA", "SMTP", "SQL", "SSH", "TCP", "TLS", "TTL", "UDP", "UI", "UID", "UUID", "URI", "URL", "UTF8", "VM", "XML", "XMPP", "XSRF", "XSS"}

var initialismSet = func() map[string]bool {
	m := map[string]bool{}
	for _, i := range Initialisms {
		m[strings.ToLower(i)] = true
	}
	return m
}()

// IsInitialism reports whether the lower-case word is a known initialism.
func IsInitialism(w string) bool { return initialismSet[w] }

// OrdinaryWords are lower-case words (length >= 2, a letter first, a few ending in digits) that are not
// initialisms and do not start or end with an initialism-forming sequence in
// a way that matters (they are always rendered Capitalised+lower-case).
var OrdinaryWords = []string{
	"file", "path", "port", "host", "name", "user", "max", "min", "idle", "conn", "timeout", "retry",
	"count", "size", "limit", "rate", "cache", "server", "client", "addr", "listen", "debug", "level",
	"log", "mode", "key", "cert", "token", "secret", "region", "zone", "bucket", "prefix", "suffix",
	"enable", "disable", "interval", "delay", "buffer", "queue", "worker", "pool", "shard", "replica",
	"primary", "backup", "metric", "trace", "span", "batch", "flush", "window", "burst", "quota",
	"up", "to", "on", "db", "fs", "io", "tag", "env", "var", "val", "is", "as", "us", "go", "in",
	// ordinary words that end in digits: the next word's capital follows a digit, not a lower-case letter
	"sha256", "md5", "base64", "port2", "ab1",
}

// PluralInitialisms are plural forms of initialisms as Go code writes them
// (IDs, URLs): one word each. They are only used as the LAST word of a name
// and directly after an ordinary word (or alone); elsewhere the split of the
// upper-case run is not fixed by the statement.
var PluralInitialisms = []string{"ids", "urls", "ips", "apis", "uuids", "acls", "uris", "vms", "cpus"}

var pluralSet = func() map[string]bool {
	m := map[string]bool{}
	for _, p := range PluralInitialisms {
		m[p] = true
	}
	return m
}()

// IsPluralInitialism reports whether w is a plural initialism word.
func IsPluralInitialism(w string) bool { return pluralSet[w] }

// PluralPlacementOK: plural initialisms only last, and not after an initialism.
func PluralPlacementOK(words []string) bool {
	for i, w := range words {
		if !IsPluralInitialism(w) {
			continue
		}
		if i != len(words)-1 {
			return false
		}
		if i > 0 && (IsInitialism(words[i-1]) || IsPluralInitialism(words[i-1])) {
			return false
		}
	}
	return true
}

// Capitalize upper-cases the first byte of an ASCII word.
func Capitalize(w string) string {
	if w == "" {
		return w
	}
	_, n := utf8.DecodeRuneInString(w)
	return strings.ToUpper(w[:n]) + w[n:]
}

// GoName renders words as a Go identifier: initialisms fully upper-case,
// other words Capitalised.
func GoName(words []string) string {
	var b strings.Builder
	for _, w := range words {
		switch {
		case IsInitialism(w):
			b.WriteString(strings.ToUpper(w))
		case IsPluralInitialism(w):
			b.WriteString(strings.ToUpper(w[:len(w)-1]) + "s")
		default:
			b.WriteString(Capitalize(w))
		}
	}
	return b.String()
}

// UpperSnake joins words as UPPER_SNAKE_CASE.
func UpperSnake(words []string) string { return strings.ToUpper(strings.Join(words, "_")) }

// LowerSnake joins words as lower_snake_case.
func LowerSnake(words []string) string { return strings.Join(words, "_") }

// Kebab joins words as kebab-case.
func Kebab(words []string) string { return strings.Join(words, "-") }

// LowerCamel renders lowerCamelCase without initialism treatment.
func LowerCamel(words []string) string {
	var b strings.Builder
	for i, w := range words {
		if i == 0 {
			b.WriteString(w)
		} else {
			b.WriteString(Capitalize(w))
		}
	}
	return b.String()
}

// UpperCamel renders UpperCamelCase without initialism treatment.
func UpperCamel(words []string) string {
	var b strings.Builder
	for _, w := range words {
		b.WriteString(Capitalize(w))
	}
	return b.String()
}

// countSegmentations counts the ways the upper-case run s splits into known
// initialisms (capped at 2).
func countSegmentations(s string) int {
	if s == "" {
		return 1
	}
	n := 0
	for _, ini := range Initialisms {
		if strings.HasPrefix(s, ini) {
			n += countSegmentations(s[len(ini):])
			if n >= 2 {
				return 2
			}
		}
	}
	return n
}

// UniqueSegmentation reports whether every maximal run of consecutive
// initialisms in words has exactly one split into known initialisms, so the
// expected decoding does not depend on a tie-break.
func UniqueSegmentation(words []string) bool {
	run := ""
	flush := func() bool {
		if run == "" {
			return true
		}
		ok := countSegmentations(run) == 1
		run = ""
		return ok
	}
	for _, w := range words {
		if IsInitialism(w) {
			run += strings.ToUpper(w)
			continue
		}
		if !flush() {
			return false
		}
	}
	return flush()
}

// Vocabulary returns ordinary words followed by lower-cased initialisms.
func Vocabulary() []string {
	out := append([]string{}, OrdinaryWords...)
	for _, i := range Initialisms {
		out = append(out, strings.ToLower(i))
	}
	out = append(out, PluralInitialisms...)
	return out
}

// RandomWords draws n words; initialismPct is the chance of an initialism.
func RandomWords(r *fw.Rand, n int, initialismPct int) []string {
	out := make([]string, n)
	for i := range out {
		if r.Chance(initialismPct) {
			out[i] = strings.ToLower(fw.Pick(r, Initialisms))
		} else {
			out[i] = fw.Pick(r, OrdinaryWords)
		}
	}
	// occasionally a plural initialism as the last word (UserIDs, BackupURLs)
	if initialismPct > 0 && r.Chance(6) && (n == 1 || !IsInitialism(out[n-2])) {
		out[n-1] = fw.Pick(r, PluralInitialisms)
	}
	return out
}

// UnicodeWords: ordinary words with non-ASCII letters (at the end, where they sit right before the next word's capital,
// and inside).
var UnicodeWords = []string{"café", "clé", "menú", "bebé", "niño", "señal", "zoë", "øre"}

// MaybeUnicode replaces, with the given chance, one non-initialism word (not the first letter-sensitive single-letter
// ones) by a word from UnicodeWords.
func MaybeUnicode(r *fw.Rand, ws []string, pct int) []string {
	if pct <= 0 || !r.Chance(pct) {
		return ws
	}
	k := r.Intn(len(ws))
	if IsInitialism(ws[k]) || IsPluralInitialism(ws[k]) || len(ws[k]) < 2 {
		return ws
	}
	out := append([]string{}, ws...)
	out[k] = fw.Pick(r, UnicodeWords)
	return out
}

// KnownC19Finding reports whether a Go name built from words falls into the
// open C19 finding (an initialism run followed by a final two-letter
// capitalised word is glued together by DecodeGoCamelCase). Checks that
// derive names from field names (C11, C12, ...) do not generate such names,
// so that the one defect is reported once, by C19.
func KnownC19Finding(words []string) bool {
	n := len(words)
	return n >= 2 && len(words[n-1]) == 2 && !IsInitialism(words[n-1]) && IsInitialism(words[n-2])
}
