// Command verif is both the orchestrator ("run", "replay") and the worker
// ("worker") of the dials verification harness. The run script builds it
// from /repo's current working tree with -tags verif (and a second copy with
// -race) before every check.
package main

import (
	"flag"
	"fmt"
	"os"
	"runtime/debug"
	"strconv"

	_ "verifharness/checks"
	"verifharness/fw"
)

func main() {
	if len(os.Args) < 2 {
		usage()
	}
	switch os.Args[1] {
	case "run":
		if len(os.Args) < 4 {
			usage()
		}
		os.Exit(fw.Orchestrate(os.Args[2], os.Args[3]))
	case "replay":
		if len(os.Args) < 3 {
			usage()
		}
		os.Exit(fw.Replay(os.Args[2]))
	case "worker":
		os.Exit(worker(os.Args[2:]))
	case "list":
		for _, id := range fw.IDs() {
			c := fw.Lookup(id)
			fmt.Printf("%s race=%v\n", id, c.Race)
		}
	case "needs-race":
		c := fw.Lookup(os.Args[2])
		if c != nil && c.Race {
			fmt.Println("yes")
		} else {
			fmt.Println("no")
		}
	default:
		usage()
	}
}

func usage() {
	fmt.Fprintln(os.Stderr, "usage: verif run <ID> quick|thorough | replay <file> | worker ... | list")
	os.Exit(2)
}

func worker(args []string) int {
	fs := flag.NewFlagSet("worker", flag.ExitOnError)
	id := fs.String("id", "", "property id")
	tier := fs.String("tier", "quick", "tier")
	seed := fs.Uint64("seed", 1, "seed")
	shard := fs.Int("shard", 0, "shard")
	shards := fs.Int("shards", 1, "shards")
	n := fs.Int("n", 1, "cases")
	out := fs.String("out", "", "result file")
	scratch := fs.String("scratch", "", "scratch dir")
	rc := fs.Int("case", -1, "replay one case")
	verbose := fs.Bool("v", false, "verbose")
	fs.Parse(args)
	c := fw.Lookup(*id)
	if c == nil {
		fmt.Fprintln(os.Stderr, "unknown check", *id)
		return 2
	}
	// runaway recursion should die quickly, not after 1GB of stack
	debug.SetMaxStack(256 << 20)
	if v := os.Getenv("VERIF_MAXSTACK_MB"); v != "" {
		if mb, err := strconv.Atoi(v); err == nil {
			debug.SetMaxStack(mb << 20)
		}
	}
	w := fw.NewWorker(c, *tier, *seed, *shard, *shards, *n, *out, *scratch)
	w.ReplayCase = *rc
	w.Verbose = *verbose
	c.Run(w)
	if err := w.Finish(true); err != nil {
		fmt.Fprintln(os.Stderr, "finish:", err)
		return 2
	}
	return 0
}
