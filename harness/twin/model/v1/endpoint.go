// Package v1 (model): a plain nested struct named Endpoint; dials stacks it leaf by leaf.
package v1

// Endpoint has no methods.
type Endpoint struct {
	Host string
	Port int
}
