// Package v1 (wire): a text-unmarshalable Endpoint. Its type prints as "v1.Endpoint", exactly like the plain struct
// of the same name in the other v1 package.
package v1

import (
	"fmt"
	"strconv"
	"strings"
)

// Endpoint is parsed from "host:port" as a whole.
type Endpoint struct {
	Host string
	Port int
}

// UnmarshalText implements encoding.TextUnmarshaler.
func (e *Endpoint) UnmarshalText(b []byte) error {
	h, p, ok := strings.Cut(string(b), ":")
	if !ok {
		return fmt.Errorf("want host:port, got %q", b)
	}
	n, err := strconv.Atoi(p)
	if err != nil {
		return err
	}
	e.Host, e.Port = h, n
	return nil
}
