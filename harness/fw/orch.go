package fw

import (
	"bytes"
	"encoding/json"
	"fmt"
	"os"
	"os/exec"
	"path/filepath"
	"regexp"
	"sort"
	"strconv"
	"strings"
	"sync"
	"syscall"
	"time"
)

// KnownFinding is one entry of known_findings.json.
type KnownFinding struct {
	Status   string `json:"status"` // "open" or "fixed"
	Property string `json:"property"`
	Key      string `json:"key"`
	Commit   string `json:"commit,omitempty"`
	What     string `json:"what"`
	Line     string `json:"line,omitempty"`
}

type knownFile struct {
	Findings []KnownFinding `json:"findings"`
}

func root() string {
	if r := os.Getenv("VERIF_ROOT"); r != "" {
		return r
	}
	return "/verif"
}

func envSeed() uint64 {
	if s := os.Getenv("VERIF_SEED"); s != "" {
		if v, err := strconv.ParseUint(s, 10, 64); err == nil {
			return v
		}
		if v, err := strconv.ParseInt(s, 10, 64); err == nil {
			return uint64(v)
		}
	}
	return 1
}

type shardOutcome struct {
	shard    int
	res      *Result
	exitErr  error
	timedOut bool
	stderr   string
	dur      time.Duration
}

// Orchestrate runs one property check at a tier and returns the exit code.
func Orchestrate(id, tier string) int {
	start := time.Now()
	c := Lookup(id)
	if c == nil {
		fmt.Fprintf(os.Stderr, "unknown property %s (known: %v)\n", id, IDs())
		return 2
	}
	if tier != "quick" && tier != "thorough" {
		fmt.Fprintln(os.Stderr, "tier must be quick or thorough")
		return 2
	}
	seed := envSeed()
	plan := c.Plan(tier)
	if plan.Shards <= 0 {
		plan.Shards = 1
	}
	if plan.Parallel <= 0 {
		plan.Parallel = 16
	}
	if plan.TimeoutSec <= 0 {
		plan.TimeoutSec = 1800
	}
	bin, _ := os.Executable()
	if c.Race {
		if rb := os.Getenv("VERIF_BIN_RACE"); rb != "" {
			bin = rb
		} else {
			fmt.Fprintln(os.Stderr, "harness: VERIF_BIN_RACE not set for a race check")
			return 2
		}
	}
	scratch, err := os.MkdirTemp("", "verif-"+id+"-")
	if err != nil {
		fmt.Fprintln(os.Stderr, "harness: mktemp:", err)
		return 2
	}
	if os.Getenv("VERIF_KEEP_SCRATCH") == "" {
		defer os.RemoveAll(scratch)
	} else {
		fmt.Fprintln(os.Stderr, "harness: keeping", scratch)
	}

	outcomes := make([]shardOutcome, plan.Shards)
	sem := make(chan struct{}, plan.Parallel)
	var wg sync.WaitGroup
	for s := 0; s < plan.Shards; s++ {
		wg.Add(1)
		sem <- struct{}{}
		go func(s int) {
			defer wg.Done()
			defer func() { <-sem }()
			outcomes[s] = runShard(bin, c, tier, seed, s, plan, scratch, -1, false)
		}(s)
	}
	wg.Wait()

	return conclude(c, tier, seed, plan, outcomes, scratch, start)
}

func runShard(bin string, c *Check, tier string, seed uint64, s int, plan Plan, scratch string, replayCase int, verbose bool) shardOutcome {
	out := filepath.Join(scratch, fmt.Sprintf("shard_%d.json", s))
	sdir := filepath.Join(scratch, fmt.Sprintf("s%d", s))
	os.MkdirAll(sdir, 0o755)
	args := []string{"worker", "-id", c.ID, "-tier", tier, "-seed", strconv.FormatUint(seed, 10),
		"-shard", strconv.Itoa(s), "-shards", strconv.Itoa(plan.Shards), "-n", strconv.Itoa(plan.CasesPerShard),
		"-out", out, "-scratch", sdir}
	if replayCase >= 0 {
		args = append(args, "-case", strconv.Itoa(replayCase))
	}
	if verbose {
		args = append(args, "-v")
	}
	cmd := exec.Command(bin, args...)
	errPath := filepath.Join(scratch, fmt.Sprintf("shard_%d.stderr", s))
	ef, _ := os.Create(errPath)
	cmd.Stderr = ef
	if verbose {
		cmd.Stdout = os.Stdout
	} else {
		cmd.Stdout = ef
	}
	cmd.Env = append(os.Environ(),
		"GORACE=halt_on_error=0 history_size=3 log_path="+filepath.Join(scratch, fmt.Sprintf("race_%d", s)),
		"GOTRACEBACK=all", "TMPDIR="+sdir)
	cmd.SysProcAttr = &syscall.SysProcAttr{Setpgid: true}
	t0 := time.Now()
	o := shardOutcome{shard: s}
	if err := cmd.Start(); err != nil {
		o.exitErr = err
		return o
	}
	done := make(chan error, 1)
	go func() { done <- cmd.Wait() }()
	select {
	case err := <-done:
		o.exitErr = err
	case <-time.After(time.Duration(plan.TimeoutSec) * time.Second):
		o.timedOut = true
		cmd.Process.Signal(syscall.SIGQUIT)
		select {
		case <-done:
		case <-time.After(10 * time.Second):
			syscall.Kill(-cmd.Process.Pid, syscall.SIGKILL)
			<-done
		}
	}
	ef.Close()
	o.dur = time.Since(t0)
	if b, err := os.ReadFile(errPath); err == nil {
		if len(b) > 200000 {
			b = append(b[:100000:100000], b[len(b)-100000:]...)
		}
		o.stderr = string(b)
	}
	if b, err := os.ReadFile(out); err == nil {
		var r Result
		if json.Unmarshal(b, &r) == nil {
			o.res = &r
		}
	}
	if o.res == nil {
		// crashed before Finish: recover violations flushed so far
		if b, err := os.ReadFile(out + ".viol"); err == nil {
			var vs []Violation
			if json.Unmarshal(b, &vs) == nil {
				o.res = &Result{Property: c.ID, Shard: s, Violations: vs}
			}
		}
	}
	return o
}

var crashRe = regexp.MustCompile(`(?m)^(panic: .*|fatal error: .*)$`)

func lastCase(scratch string, s int) (int, string) {
	b, err := os.ReadFile(filepath.Join(scratch, fmt.Sprintf("shard_%d.json.progress", s)))
	if err != nil {
		return -1, ""
	}
	parts := strings.SplitN(string(b), "\n", 2)
	n, err := strconv.Atoi(strings.TrimSpace(parts[0]))
	if err != nil {
		return -1, ""
	}
	desc := ""
	if len(parts) > 1 {
		desc = strings.TrimSpace(parts[1])
	}
	return n, desc
}

// raceReports parses the race detector's log files of a shard into blocks.
func raceReports(scratch string, s int) []string {
	matches, _ := filepath.Glob(filepath.Join(scratch, fmt.Sprintf("race_%d.*", s)))
	var blocks []string
	for _, m := range matches {
		b, err := os.ReadFile(m)
		if err != nil {
			continue
		}
		for _, blk := range strings.Split(string(b), "==================") {
			if strings.Contains(blk, "WARNING: DATA RACE") {
				blocks = append(blocks, blk)
			}
		}
	}
	return blocks
}

var frameRe = regexp.MustCompile(`(?m)^  ([^\s(][^\n]*?)\(`)

// raceAccessFrames returns, for each of the two accesses in a race block,
// the first frame outside runtime/reflect/sync/internal packages.
func raceAccessFrames(blk string) []string {
	var out []string
	sections := regexp.MustCompile(`(?m)^(Write|Read|Previous write|Previous read|Atomic|Previous atomic)[^\n]*by [^\n]*:$`).FindAllStringIndex(blk, -1)
	for i, loc := range sections {
		end := len(blk)
		if i+1 < len(sections) {
			end = sections[i+1][0]
		}
		sec := blk[loc[1]:end]
		if j := strings.Index(sec, "\n\n"); j >= 0 {
			sec = sec[:j]
		}
		// the deciding frame of an access is the innermost one that belongs
		// to dials or to the harness (standard-library and third-party
		// frames above it are skipped)
		first := ""
		innermost := ""
		for _, m := range frameRe.FindAllStringSubmatch(sec, -1) {
			fn := m[1]
			if innermost == "" {
				innermost = fn
			}
			if strings.HasPrefix(fn, "github.com/vimeo/dials") || strings.HasPrefix(fn, "verifharness/") {
				first = fn
				break
			}
		}
		if first == "" {
			first = innermost
		}
		out = append(out, first)
	}
	return out
}

func conclude(c *Check, tier string, seed uint64, plan Plan, outcomes []shardOutcome, scratch string, start time.Time) int {
	rootDir := root()
	known := loadKnown(rootDir)
	harnessFail := []string{}
	var viols []Violation
	var evals int64
	distinct := map[uint64]struct{}{}
	counters := map[string]int64{}
	sets := map[string]map[string]struct{}{}
	var samples []any
	var incon, notes []string

	for _, o := range outcomes {
		if o.res != nil {
			r := o.res
			evals += r.Evaluations
			for _, h := range r.Distinct {
				distinct[h] = struct{}{}
			}
			for k, v := range r.Counters {
				counters[k] += v
			}
			for k, l := range r.Sets {
				m := sets[k]
				if m == nil {
					m = map[string]struct{}{}
					sets[k] = m
				}
				for _, s := range l {
					m[s] = struct{}{}
				}
			}
			if len(samples) < 8 {
				for _, s := range r.Samples {
					if len(samples) < 8 {
						samples = append(samples, s)
					}
				}
			}
			viols = append(viols, r.Violations...)
			incon = append(incon, r.Inconclusive...)
			notes = append(notes, r.Notes...)
		}
		completed := o.res != nil && o.res.Completed
		if o.timedOut {
			lc, desc := lastCase(scratch, o.shard)
			// a shard watchdog firing is inconclusive, never a violation by itself
			incon = append(incon, fmt.Sprintf("shard %d: wall-clock watchdog (%ds) fired at case %d %s", o.shard, plan.TimeoutSec, lc, desc))
			harnessFail = append(harnessFail, fmt.Sprintf("shard %d timed out", o.shard))
			saveLog(rootDir, c.ID, seed, o.shard, o.stderr)
			continue
		}
		if !completed {
			// the worker process died: classify
			lc, desc := lastCase(scratch, o.shard)
			m := crashRe.FindString(o.stderr)
			if m != "" {
				key := "crash:" + TopDialsFrame(afterFirst(o.stderr, m))
				viols = append(viols, Violation{Property: c.ID, Key: key,
					Detail: fmt.Sprintf("worker process died: %s (last case started: %d %s)", m, lc, desc),
					Tier:   tier, Seed: seed, Shard: o.shard, Shards: plan.Shards, Case: lc, N: plan.CasesPerShard,
					Witness: map[string]any{"stderr": TrimStack(afterFirst(o.stderr, m)), "case_desc": desc}})
			} else {
				harnessFail = append(harnessFail, fmt.Sprintf("shard %d exited abnormally without a result (%v)", o.shard, o.exitErr))
				saveLog(rootDir, c.ID, seed, o.shard, o.stderr)
			}
		}
		// race detector reports
		if c.Race {
			blocks := raceReports(scratch, o.shard)
			counters["race_reports"] += int64(len(blocks))
			seen := map[string]bool{}
			for _, blk := range blocks {
				frames := raceAccessFrames(blk)
				inDials := false
				for _, f := range frames {
					if strings.HasPrefix(f, "github.com/vimeo/dials") {
						inDials = true
					}
				}
				if !inDials && !raceAny(c) {
					harnessFail = append(harnessFail, "race report with only harness frames (harness bug)")
					saveLog(rootDir, c.ID, seed, o.shard, blk)
					continue
				}
				sort.Strings(frames)
				key := "race:" + strings.Join(frames, "|")
				key = strings.ReplaceAll(key, "github.com/vimeo/dials", "dials")
				if seen[key] {
					continue
				}
				seen[key] = true
				lc, _ := lastCase(scratch, o.shard)
				viols = append(viols, Violation{Property: c.ID, Key: key, Detail: "data race reported by the Go race detector",
					Tier: tier, Seed: seed, Shard: o.shard, Shards: plan.Shards, Case: lc, N: plan.CasesPerShard,
					Witness: map[string]any{"report": TrimStack(blk)}})
			}
		}
	}

	// apply known findings; de-duplicate violations by key
	byKey := map[string][]Violation{}
	keys := []string{}
	for _, v := range viols {
		if _, ok := byKey[v.Key]; !ok {
			keys = append(keys, v.Key)
		}
		byKey[v.Key] = append(byKey[v.Key], v)
	}
	sort.Strings(keys)
	exit := 0
	nViol := 0
	knownHits := []string{}
	os.MkdirAll(filepath.Join(rootDir, "replays"), 0o755)
	for _, k := range keys {
		vs := byKey[k]
		if kf := matchKnown(known, c.ID, k); kf != nil {
			fmt.Printf("KNOWN-FINDING: property=%s %s (key %s; %d occurrence(s) this run)\n", c.ID, kf.What, k, len(vs))
			knownHits = append(knownHits, k)
			continue
		}
		nViol++
		v := vs[0]
		path := filepath.Join(rootDir, "replays", fmt.Sprintf("%s-%d-%s.json", c.ID, seed, sanitize(k)))
		b, _ := json.MarshalIndent(map[string]any{"violation": v, "occurrences": len(vs)}, "", " ")
		os.WriteFile(path, b, 0o644)
		fmt.Printf("VIOLATION property=%s replay=%s\n", c.ID, path)
		fmt.Printf("  key=%s occurrences=%d\n  %s\n", k, len(vs), firstLine(v.Detail))
		exit = 1
	}

	// sufficiency of observation
	nd := len(distinct) + int(counters["distinct_by_construction"])
	if min, ok := c.MinDistinct[tier]; ok && nd < min {
		harnessFail = append(harnessFail, fmt.Sprintf("observed too little: %d distinct non-trivial cases < minimum %d", nd, min))
	}
	for name, min := range c.MinCounters[tier] {
		if counters[name] < min {
			harnessFail = append(harnessFail, fmt.Sprintf("observed too little: counter %s=%d < minimum %d", name, counters[name], min))
		}
	}
	if evals > 0 && int64(len(incon))*20 > evals && len(incon) > 3 {
		harnessFail = append(harnessFail, fmt.Sprintf("too many inconclusive cases: %d of %d", len(incon), evals))
	}

	// evidence
	setsOut := map[string]any{}
	for k, m := range sets {
		l := make([]string, 0, len(m))
		for s := range m {
			l = append(l, s)
		}
		sort.Strings(l)
		if len(l) > 200 {
			setsOut[k] = map[string]any{"count": len(l), "first": l[:200]}
		} else {
			setsOut[k] = l
		}
	}
	if len(samples) == 0 {
		samples = []any{"(no sample recorded)"}
	}
	if len(incon) > 20 {
		incon = incon[:20]
	}
	cov := map[string]any{
		"evaluations":         evals,
		"distinct_nontrivial": nd,
		"rule":                c.Rule,
		"samples":             samples,
		"counters":            counters,
		"observed_sets":       setsOut,
		"inconclusive":        incon,
		"known_findings_hit":  knownHits,
		"shards":              plan.Shards,
		"cases_per_shard":     plan.CasesPerShard,
		"exhaustive":          false,
		"notes":               notes,
	}
	ev := map[string]any{
		"property_id": c.ID, "tier": tier, "seed": seed, "level": "exploration",
		"coverage": cov, "assumptions": c.Assumptions,
		"wall_s": time.Since(start).Seconds(), "violations": nViol,
	}
	if len(harnessFail) > 0 {
		ev["harness_failures"] = harnessFail
	}
	os.MkdirAll(filepath.Join(rootDir, "evidence"), 0o755)
	b, _ := json.MarshalIndent(ev, "", " ")
	os.WriteFile(filepath.Join(rootDir, "evidence", c.ID+".json"), b, 0o644)

	fmt.Printf("%s %s seed=%d: evaluations=%d distinct_nontrivial=%d violations=%d known=%d inconclusive=%d wall=%.1fs\n",
		c.ID, tier, seed, evals, nd, nViol, len(knownHits), len(incon), time.Since(start).Seconds())
	if exit == 1 {
		return 1
	}
	if len(harnessFail) > 0 {
		for _, h := range harnessFail {
			fmt.Println("HARNESS:", h)
		}
		return 2
	}
	fmt.Printf("held on everything explored (%d executions)\n", evals)
	return 0
}

func raceAny(c *Check) bool { return c.RaceAny }

func afterFirst(s, m string) string {
	if i := strings.Index(s, m); i >= 0 {
		return s[i:]
	}
	return s
}

func firstLine(s string) string {
	if i := strings.Index(s, "\n"); i >= 0 {
		return s[:i]
	}
	return s
}

func sanitize(k string) string {
	var b bytes.Buffer
	for _, r := range k {
		switch {
		case r >= 'a' && r <= 'z', r >= 'A' && r <= 'Z', r >= '0' && r <= '9', r == '-', r == '_', r == '.':
			b.WriteRune(r)
		default:
			b.WriteByte('_')
		}
	}
	s := b.String()
	if len(s) > 80 {
		s = s[:80]
	}
	return s
}

func saveLog(rootDir, id string, seed uint64, shard int, text string) {
	os.MkdirAll(filepath.Join(rootDir, "replays"), 0o755)
	os.WriteFile(filepath.Join(rootDir, "replays", fmt.Sprintf("%s-%d-shard%d.log", id, seed, shard)), []byte(text), 0o644)
}

func loadKnown(rootDir string) []KnownFinding {
	b, err := os.ReadFile(filepath.Join(rootDir, "known_findings.json"))
	if err != nil {
		return nil
	}
	var kf knownFile
	if json.Unmarshal(b, &kf) != nil {
		return nil
	}
	return kf.Findings
}

// matchKnown: only "open" findings suppress; a "fixed" entry suppresses nothing.
func matchKnown(known []KnownFinding, prop, key string) *KnownFinding {
	for i := range known {
		k := &known[i]
		if k.Status == "open" && k.Property == prop && k.Key == key {
			return k
		}
	}
	return nil
}

// Replay re-executes the case recorded in a replay file, verbosely.
func Replay(path string) int {
	b, err := os.ReadFile(path)
	if err != nil {
		fmt.Fprintln(os.Stderr, err)
		return 2
	}
	var rf struct {
		Violation Violation `json:"violation"`
	}
	if err := json.Unmarshal(b, &rf); err != nil {
		fmt.Fprintln(os.Stderr, err)
		return 2
	}
	v := rf.Violation
	c := Lookup(v.Property)
	if c == nil {
		fmt.Fprintln(os.Stderr, "unknown property in replay file")
		return 2
	}
	fmt.Printf("replaying %s key=%s tier=%s seed=%d shard=%d/%d case=%d\nrecorded: %s\n", v.Property, v.Key, v.Tier, v.Seed, v.Shard, v.Shards, v.Case, v.Detail)
	bin, _ := os.Executable()
	if c.Race {
		if rb := os.Getenv("VERIF_BIN_RACE"); rb != "" {
			bin = rb
		}
	}
	scratch, err := os.MkdirTemp("", "verif-replay-")
	if err != nil {
		return 2
	}
	defer os.RemoveAll(scratch)
	plan := Plan{Shards: v.Shards, CasesPerShard: v.N, TimeoutSec: 600}
	o := runShard(bin, c, v.Tier, v.Seed, v.Shard, plan, scratch, v.Case, true)
	if o.stderr != "" {
		fmt.Println(o.stderr)
	}
	blocks := raceReports(scratch, v.Shard)
	for _, blk := range blocks {
		fmt.Println(blk)
	}
	if o.res != nil && len(o.res.Violations) > 0 || len(blocks) > 0 || (o.res == nil || !o.res.Completed) {
		fmt.Println("replay: violation reproduced")
		return 1
	}
	fmt.Println("replay: no violation this time")
	return 0
}
