// Package fw is the small framework shared by all property checks: seeded
// PRNG streams, the worker-side recorder (violations, distinct signatures,
// counters, samples), and the result file exchanged with the orchestrator.
package fw

import (
	"encoding/json"
	"fmt"
	"hash/fnv"
	"os"
	"runtime/debug"
	"sort"
	"strings"
	"sync"
	"sync/atomic"
)

// Check describes one property check.
type Check struct {
	ID string
	// Race: build/run the worker with the race detector.
	Race bool
	// RaceAny: every race report is a violation (the workload races harness
	// goroutines on purpose over memory that must be disjoint), not only
	// reports with a dials frame at the top of an access stack.
	RaceAny bool
	// Rule is the evidence "rule" text: how cases are generated and what makes
	// one distinct and non-trivial.
	Rule string
	// Assumptions/trusted base recorded in evidence.
	Assumptions []string
	// MinDistinct: fewer distinct non-trivial cases than this (summed over
	// shards) makes the run a harness failure (exit 2), never a pass.
	MinDistinct map[string]int
	// MinCounters: counters that must reach a minimum (monitor observed
	// something) for the run to count.
	MinCounters map[string]map[string]int64
	// Plan returns the shard layout for a tier.
	Plan func(tier string) Plan
	// Run executes one shard.
	Run func(w *Worker)
}

// Plan is a tier's shard layout.
type Plan struct {
	Shards int
	// CasesPerShard is advisory; the worker's Run reads it from w.N.
	CasesPerShard int
	// Parallel is how many shard processes may run at once (0 = 16).
	Parallel int
	// TimeoutSec is the wall-clock watchdog per shard (inconclusive when it fires).
	TimeoutSec int
}

var registry = map[string]*Check{}

// Register adds a check to the registry.
func Register(c *Check) { registry[c.ID] = c }

// Lookup finds a check.
func Lookup(id string) *Check { return registry[id] }

// IDs lists registered checks.
func IDs() []string {
	out := []string{}
	for k := range registry {
		out = append(out, k)
	}
	sort.Strings(out)
	return out
}

// Violation is one refutation of the property (or a candidate for a known finding).
type Violation struct {
	Property string `json:"property"`
	// Key identifies the failing input/call-site/history class; it is what
	// known_findings.json entries are matched against.
	Key    string `json:"key"`
	Detail string `json:"detail"`
	// Replay coordinates.
	Tier    string `json:"tier"`
	Seed    uint64 `json:"seed"`
	Shard   int    `json:"shard"`
	Shards  int    `json:"shards"`
	Case    int    `json:"case"`
	N       int    `json:"n"`
	Witness any    `json:"witness,omitempty"`
}

// Result is what a worker writes for the orchestrator.
type Result struct {
	Property     string              `json:"property"`
	Shard        int                 `json:"shard"`
	Evaluations  int64               `json:"evaluations"`
	Distinct     []uint64            `json:"distinct"`
	Counters     map[string]int64    `json:"counters"`
	Sets         map[string][]string `json:"sets"`
	Samples      []any               `json:"samples"`
	Violations   []Violation         `json:"violations"`
	Inconclusive []string            `json:"inconclusive"`
	Notes        []string            `json:"notes"`
	Completed    bool                `json:"completed"`
}

// Worker is the per-shard context handed to Check.Run.
type Worker struct {
	Check  *Check
	Tier   string
	Seed   uint64
	Shard  int
	Shards int
	N      int
	// ReplayCase >= 0: run only that case, verbosely.
	ReplayCase int
	Verbose    bool
	OutPath    string
	Scratch    string

	mu       sync.Mutex
	evals    atomic.Int64
	distinct map[uint64]struct{}
	counters map[string]int64
	sets     map[string]map[string]struct{}
	samples  []any
	viols    []Violation
	incon    []string
	notes    []string
	progress *os.File
	curCase  atomic.Int64
}

// NewWorker builds a worker.
func NewWorker(c *Check, tier string, seed uint64, shard, shards, n int, out, scratch string) *Worker {
	w := &Worker{Check: c, Tier: tier, Seed: seed, Shard: shard, Shards: shards, N: n, ReplayCase: -1,
		OutPath: out, Scratch: scratch,
		distinct: map[uint64]struct{}{}, counters: map[string]int64{}, sets: map[string]map[string]struct{}{}}
	if out != "" {
		f, err := os.Create(out + ".progress")
		if err == nil {
			w.progress = f
		}
	}
	return w
}

// Quick reports whether this is the quick tier.
func (w *Worker) Quick() bool { return w.Tier != "thorough" }

// Pick returns q for the quick tier and t for thorough.
func (w *Worker) Pick(q, t int) int {
	if w.Quick() {
		return q
	}
	return t
}

// CaseSeed derives the seed of case i of this shard.
func (w *Worker) CaseSeed(i int) uint64 {
	return Mix(w.Seed, Mix(uint64(w.Shard)+0x9e37, uint64(i)+0x79b9))
}

// Rand returns the PRNG for case i.
func (w *Worker) Rand(i int) *Rand { return NewRand(w.CaseSeed(i)) }

// Cases iterates the shard's cases (or just the replayed one), calling f
// with the case index and its PRNG. A panic in f is turned into a violation
// with key "panic:<top dials frame>".
func (w *Worker) Cases(f func(i int, r *Rand)) {
	run := func(i int) {
		w.Begin(i)
		defer func() {
			if p := recover(); p != nil {
				st := string(debug.Stack())
				w.Violation(i, "panic:"+TopDialsFrame(st), fmt.Sprintf("panic: %v", p), map[string]any{"stack": TrimStack(st)})
			}
		}()
		f(i, w.Rand(i))
		w.evals.Add(1)
	}
	if w.ReplayCase >= 0 {
		run(w.ReplayCase)
		return
	}
	for i := 0; i < w.N; i++ {
		run(i)
	}
}

// Begin records that case i is starting (so a crash can be attributed).
func (w *Worker) Begin(i int) {
	w.curCase.Store(int64(i))
	if w.progress != nil && (i%64 == 0 || w.N < 4096) {
		var b [24]byte
		s := fmt.Appendf(b[:0], "%-20d\n", i)
		w.progress.WriteAt(s, 0)
	}
}

// BeginDesc is Begin plus a human description written to the progress file
// (for checks whose cases can take the process down).
func (w *Worker) BeginDesc(i int, desc string) {
	w.curCase.Store(int64(i))
	if w.progress != nil {
		if len(desc) > 4000 {
			desc = desc[:4000]
		}
		s := fmt.Sprintf("%-20d\n%s\n", i, desc)
		w.progress.Truncate(0)
		w.progress.WriteAt([]byte(s), 0)
	}
}

// Eval counts one evaluation (for checks not using Cases).
func (w *Worker) Eval(n int64) { w.evals.Add(n) }

// Distinct records the signature of a distinct non-trivial case.
func (w *Worker) Distinct(sig string) {
	h := fnv.New64a()
	h.Write([]byte(sig))
	v := h.Sum64()
	w.mu.Lock()
	w.distinct[v] = struct{}{}
	w.mu.Unlock()
}

// DistinctN counts n cases that are distinct by construction (an
// enumeration without repetition), so they need not be hashed.
func (w *Worker) DistinctN(n int64) { w.Count("distinct_by_construction", n) }

// Count adds to a named counter.
func (w *Worker) Count(name string, n int64) {
	w.mu.Lock()
	w.counters[name] += n
	w.mu.Unlock()
}

// SetAdd adds a member to a named (small) set, reported as a sorted list.
func (w *Worker) SetAdd(name, member string) {
	w.mu.Lock()
	m := w.sets[name]
	if m == nil {
		m = map[string]struct{}{}
		w.sets[name] = m
	}
	if len(m) < 4096 {
		m[member] = struct{}{}
	}
	w.mu.Unlock()
}

// Sample keeps up to 6 samples per shard.
func (w *Worker) Sample(v any) {
	w.mu.Lock()
	if len(w.samples) < 6 {
		w.samples = append(w.samples, v)
	}
	w.mu.Unlock()
}

// WantSample reports whether another sample would be kept.
func (w *Worker) WantSample() bool {
	w.mu.Lock()
	defer w.mu.Unlock()
	return len(w.samples) < 6
}

// Violation records a violation for case i.
func (w *Worker) Violation(i int, key, detail string, witness any) {
	v := Violation{Property: w.Check.ID, Key: key, Detail: detail, Tier: w.Tier, Seed: w.Seed,
		Shard: w.Shard, Shards: w.Shards, Case: i, N: w.N, Witness: witness}
	w.mu.Lock()
	// keep at most 50 per shard, and at most 5 per key
	same := 0
	for _, o := range w.viols {
		if o.Key == key {
			same++
		}
	}
	if len(w.viols) < 50 && same < 5 {
		w.viols = append(w.viols, v)
	}
	w.counters["violations_raw"]++
	w.mu.Unlock()
	if w.Verbose {
		b, _ := json.MarshalIndent(v, "", "  ")
		fmt.Println(string(b))
	}
	w.flushViolations()
}

// Inconclusive records an inconclusive case.
func (w *Worker) Inconclusive(i int, reason string) {
	w.mu.Lock()
	if len(w.incon) < 50 {
		w.incon = append(w.incon, fmt.Sprintf("case %d: %s", i, reason))
	}
	w.counters["inconclusive"]++
	w.mu.Unlock()
}

// Note records a free-form note for the evidence file.
func (w *Worker) Note(s string) {
	w.mu.Lock()
	if len(w.notes) < 20 {
		w.notes = append(w.notes, s)
	}
	w.mu.Unlock()
}

func (w *Worker) flushViolations() {
	if w.OutPath == "" {
		return
	}
	w.mu.Lock()
	b, _ := json.Marshal(w.viols)
	w.mu.Unlock()
	os.WriteFile(w.OutPath+".viol", b, 0o644)
}

// Finish writes the result file.
func (w *Worker) Finish(completed bool) error {
	w.mu.Lock()
	defer w.mu.Unlock()
	res := Result{Property: w.Check.ID, Shard: w.Shard, Evaluations: w.evals.Load(), Counters: w.counters,
		Samples: w.samples, Violations: w.viols, Inconclusive: w.incon, Notes: w.notes, Completed: completed,
		Sets: map[string][]string{}}
	for h := range w.distinct {
		res.Distinct = append(res.Distinct, h)
	}
	for k, m := range w.sets {
		l := make([]string, 0, len(m))
		for s := range m {
			l = append(l, s)
		}
		sort.Strings(l)
		res.Sets[k] = l
	}
	if w.OutPath == "" {
		return nil
	}
	b, err := json.Marshal(res)
	if err != nil {
		// a witness or sample that cannot be marshalled must not lose the run
		res.Samples = nil
		for i := range res.Violations {
			res.Violations[i].Witness = fmt.Sprintf("%v", res.Violations[i].Witness)
		}
		b, err = json.Marshal(res)
		if err != nil {
			return err
		}
	}
	return os.WriteFile(w.OutPath, b, 0o644)
}

// TopDialsFrame extracts the innermost github.com/vimeo/dials function from a stack trace text.
func TopDialsFrame(stack string) string {
	for _, l := range strings.Split(stack, "\n") {
		l = strings.TrimSpace(l)
		if strings.HasPrefix(l, "github.com/vimeo/dials") {
			if i := strings.LastIndex(l, "("); i > 0 {
				l = l[:i]
			}
			l = strings.TrimPrefix(l, "github.com/vimeo/dials")
			l = strings.TrimPrefix(l, "/")
			// strip generic instantiation noise
			l = strings.ReplaceAll(l, "[...]", "")
			return l
		}
	}
	return "no-dials-frame"
}

// TrimStack keeps the first lines of a stack trace.
func TrimStack(s string) string {
	lines := strings.Split(s, "\n")
	if len(lines) > 40 {
		lines = lines[:40]
	}
	return strings.Join(lines, "\n")
}
