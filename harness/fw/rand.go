package fw

import "math"

// Mix is a SplitMix64-style mixer of two words.
func Mix(a, b uint64) uint64 {
	z := a + 0x9e3779b97f4a7c15 + b*0xbf58476d1ce4e5b9
	z = (z ^ (z >> 30)) * 0xbf58476d1ce4e5b9
	z = (z ^ (z >> 27)) * 0x94d049bb133111eb
	return z ^ (z >> 31)
}

// Rand is a SplitMix64 PRNG; every random choice of a case draws from one.
type Rand struct{ s uint64 }

// NewRand seeds a PRNG.
func NewRand(seed uint64) *Rand { return &Rand{s: seed} }

// State returns the current state (for replay records).
func (r *Rand) State() uint64 { return r.s }

// U64 returns the next 64 random bits.
func (r *Rand) U64() uint64 {
	r.s += 0x9e3779b97f4a7c15
	z := r.s
	z = (z ^ (z >> 30)) * 0xbf58476d1ce4e5b9
	z = (z ^ (z >> 27)) * 0x94d049bb133111eb
	return z ^ (z >> 31)
}

// Intn returns a value in [0,n).
func (r *Rand) Intn(n int) int {
	if n <= 0 {
		return 0
	}
	return int(r.U64() % uint64(n))
}

// Range returns a value in [lo,hi].
func (r *Rand) Range(lo, hi int) int { return lo + r.Intn(hi-lo+1) }

// Bool returns a fair coin.
func (r *Rand) Bool() bool { return r.U64()&1 == 1 }

// Chance returns true with probability p/100.
func (r *Rand) Chance(pct int) bool { return r.Intn(100) < pct }

// Float returns a float in [0,1).
func (r *Rand) Float() float64 { return float64(r.U64()>>11) / float64(1<<53) }

// Fork derives an independent stream.
func (r *Rand) Fork() *Rand { return NewRand(Mix(r.U64(), 0x5851f42d4c957f2d)) }

// Perm returns a random permutation of [0,n).
func (r *Rand) Perm(n int) []int {
	p := make([]int, n)
	for i := range p {
		p[i] = i
	}
	for i := n - 1; i > 0; i-- {
		j := r.Intn(i + 1)
		p[i], p[j] = p[j], p[i]
	}
	return p
}

// Pick picks one of the strings.
func Pick[T any](r *Rand, xs []T) T { return xs[r.Intn(len(xs))] }

// Float64Bits returns a float64 from random bits, avoiding NaN.
func (r *Rand) Float64Bits() float64 {
	for {
		f := math.Float64frombits(r.U64())
		if !math.IsNaN(f) {
			return f
		}
	}
}
