package conc

import (
	"context"
	"fmt"
	"reflect"
	"strings"
	"sync"
)

// DQ is one event dequeued by the callback goroutine (cb.dequeue hook).
type DQ struct {
	T      int64
	Kind   string // "new", "err", "register", "unregister"
	Serial uint64 // new: announced serial; register: token serial
	// Genuine: the registration's token came from ViewVersion (cfg != nil).
	Genuine    bool
	Handle     uintptr // register/unregister: the handle's address
	Suppressed bool    // new: the event's globalCBsSuppressed flag (observed, used by C09)
	// ID: register/unregister: the harness registration id the handle belonged to WHEN the event was dequeued (-1:
	// untagged). Handle addresses are reused once a handle is gone, so the id is resolved then and there.
	ID int
}

type regKeyT struct{}

// RegKey is the context key under which RegisterCallback callers pass
// their registration id (picked up at the api.submit hook).
var RegKey regKeyT

// CBTrace records the callback goroutine's dequeue order and maps handle
// addresses to harness registration ids.
type CBTrace struct {
	mu      sync.Mutex
	dq      []DQ
	handles map[uintptr]int
	exited  bool
}

// NewCBTrace creates a trace recorder.
func NewCBTrace() *CBTrace { return &CBTrace{handles: map[uintptr]int{}} }

func evKind(ev any) string {
	n := reflect.TypeOf(ev).String()
	switch {
	case strings.Contains(n, "newConfigEvent"):
		return "new"
	case strings.Contains(n, "watchErrorEvent"):
		return "err"
	case strings.Contains(n, "userCallbackRegistration"):
		return "register"
	case strings.Contains(n, "userCallbackUnregister"):
		return "unregister"
	}
	return n
}

// OnHook must be called from the scenario's hook function.
func (t *CBTrace) OnHook(s *Scenario, name string, ctx context.Context, args []any) {
	switch name {
	case "api.submit":
		// args: d, ev
		if len(args) < 2 {
			return
		}
		if evKind(args[1]) == "register" {
			h := reflect.ValueOf(args[1]).Elem().FieldByName("handle").Pointer()
			id, ok := ctx.Value(RegKey).(int)
			t.mu.Lock()
			if ok {
				t.handles[h] = id
			} else {
				// an untagged (fence) registration: its handle may sit at the address a long-gone tagged handle had
				delete(t.handles, h)
			}
			t.mu.Unlock()
		}
	case "cb.dequeue":
		// args: ch, ev
		if len(args) < 2 {
			return
		}
		ev := reflect.ValueOf(args[1]).Elem()
		d := DQ{T: s.Tick(), Kind: evKind(args[1])}
		switch d.Kind {
		case "new":
			d.Serial = ev.FieldByName("serial").Uint()
			d.Suppressed = ev.FieldByName("globalCBsSuppressed").Bool()
		case "register":
			d.Handle = ev.FieldByName("handle").Pointer()
			d.ID = t.HandleID(d.Handle)
			tok := ev.FieldByName("serial").Elem()
			d.Serial = tok.FieldByName("s").Uint()
			d.Genuine = !tok.FieldByName("cfg").IsNil()
		case "unregister":
			d.Handle = ev.FieldByName("handle").Pointer()
			d.ID = t.HandleID(d.Handle)
		}
		t.mu.Lock()
		t.dq = append(t.dq, d)
		t.mu.Unlock()
	case "cb.exit":
		t.mu.Lock()
		t.exited = true
		t.mu.Unlock()
	}
}

// Dequeued returns a copy of the dequeue log.
func (t *CBTrace) Dequeued() []DQ {
	t.mu.Lock()
	defer t.mu.Unlock()
	return append([]DQ(nil), t.dq...)
}

// Exited reports whether the callback goroutine ran its exit hook.
func (t *CBTrace) Exited() bool {
	t.mu.Lock()
	defer t.mu.Unlock()
	return t.exited
}

// HandleID maps a handle address to the harness registration id (-1 for
// registrations the harness did not tag, e.g. fences).
func (t *CBTrace) HandleID(h uintptr) int {
	t.mu.Lock()
	defer t.mu.Unlock()
	if id, ok := t.handles[h]; ok {
		return id
	}
	return -1
}

// Call is one predicted or actual callback invocation.
type Call struct {
	Kind   string // "new", "err", "reg"
	Handle int
	Old    *Cfg
	New    *Cfg
	// Tag says why the call is predicted (global, ordinary, catchup); it is
	// not part of the comparison.
	Tag string
}

func (c Call) same(o Call) bool {
	return c.Kind == o.Kind && c.Handle == o.Handle && c.Old == o.Old && c.New == o.New
}

func (c Call) String() string {
	if c.Kind == "err" {
		return "err"
	}
	return fmt.Sprintf("%s(h=%d old=%v new=%v)", c.Kind, c.Handle, fpShort(c.Old), fpShort(c.New))
}

func fpShort(c *Cfg) string {
	if c == nil {
		return "nil"
	}
	return fmt.Sprintf("{A:%d B:%d C:%d D:%d}", c.A, c.B, c.C, c.D)
}

// Predict computes, from the dequeue order alone plus the install log, the
// invocation sequence the property demands. It is a restatement of C06:
//   - new-config s: the global callback (unless withheld), then every live
//     registered callback whose token is < s, in registration order, each with
//     old = version s-1 and new = version s;
//   - register with a genuine token t while the last announced serial L > t:
//     one immediate catch-up call (token's config, version L); then live;
//   - unregister: no longer live; watch-error: the global error callback.
//
// cfgBySerial must hold the config pointer of every version (0 = initial).
// tokenCfg maps a registration id to the config its token was taken with.
func Predict(dq []DQ, tr *CBTrace, cfgBySerial map[uint64]*Cfg, tokenCfg map[int]*Cfg, globalNew, globalErr bool, withheld func(d DQ) bool) ([]Call, string) {
	type live struct {
		id    int
		token uint64
	}
	var lives []live
	var out []Call
	lastSerial := uint64(0)
	for _, d := range dq {
		switch d.Kind {
		case "new":
			oldC, ok1 := cfgBySerial[d.Serial-1]
			newC, ok2 := cfgBySerial[d.Serial]
			if !ok1 || !ok2 {
				return out, fmt.Sprintf("announced serial %d has no installed version (or predecessor) in the install log", d.Serial)
			}
			if d.Serial <= lastSerial {
				return out, fmt.Sprintf("new-config events out of install order: %d after %d", d.Serial, lastSerial)
			}
			lastSerial = d.Serial
			if globalNew && (withheld == nil || !withheld(d)) {
				out = append(out, Call{Kind: "new", Old: oldC, New: newC, Tag: "global-new"})
			}
			for _, l := range lives {
				if l.token < d.Serial {
					out = append(out, Call{Kind: "reg", Handle: l.id, Old: oldC, New: newC, Tag: "ordinary"})
				}
			}
		case "err":
			if globalErr && (withheld == nil || !withheld(d)) {
				out = append(out, Call{Kind: "err", Tag: "global-err"})
			}
		case "register":
			id := d.ID
			if id < 0 {
				continue // untagged (fence) registration: its callback is a no-op nobody logs
			}
			// whether the token was a genuine one is what the CLIENT passed in (a config came with it), not what the
			// dequeued event still says
			genuine := d.Genuine
			if c, known := tokenCfg[id]; known && (c != nil) != d.Genuine {
				return out, fmt.Sprintf("registration %d was made with a token whose config was nil=%v, but the callback goroutine dequeued it with config nil=%v (serial %d)", id, c == nil, !d.Genuine, d.Serial)
			}
			if genuine && d.Serial < lastSerial {
				out = append(out, Call{Kind: "reg", Handle: id, Old: tokenCfg[id], New: cfgBySerial[lastSerial], Tag: "catchup"})
			}
			lives = append(lives, live{id: id, token: d.Serial})
		case "unregister":
			id := d.ID
			for k, l := range lives {
				if l.id == id {
					lives = append(lives[:k:k], lives[k+1:]...)
					break
				}
			}
		}
	}
	return out, ""
}

// Actual converts the callback log into the invocation sequence (by entry order).
func Actual(log []CBEvent) []Call {
	evs := append([]CBEvent(nil), log...)
	for i := 1; i < len(evs); i++ {
		for j := i; j > 0 && evs[j].Enter < evs[j-1].Enter; j-- {
			evs[j], evs[j-1] = evs[j-1], evs[j]
		}
	}
	out := make([]Call, 0, len(evs))
	for _, e := range evs {
		c := Call{Kind: e.Kind, Handle: e.Handle, Old: e.Old, New: e.New}
		if e.Kind == "err" {
			c.Old, c.New = nil, nil
		}
		out = append(out, c)
	}
	return out
}

// DiffCalls returns ("","") if equal, else a class key and a description of
// the first difference.
func DiffCalls(want, got []Call) (string, string) {
	n := len(want)
	if len(got) < n {
		n = len(got)
	}
	for i := 0; i < n; i++ {
		if !want[i].same(got[i]) {
			key := "cb-sequence-diff:predicted-" + want[i].Tag + "-actual-" + got[i].Kind
			if want[i].Kind == got[i].Kind && want[i].Handle == got[i].Handle {
				if want[i].New == got[i].New {
					key = "cb-old-config-wrong:" + want[i].Tag
				} else {
					key = "cb-configs-wrong:" + want[i].Tag
				}
			}
			return key, fmt.Sprintf("call #%d: predicted %s [%s], actual %s", i, want[i], want[i].Tag, got[i])
		}
	}
	if len(want) > len(got) {
		w := want[len(got)]
		return "cb-call-missing:" + w.Tag, fmt.Sprintf("call #%d missing: predicted %s [%s], but only %d calls were made", len(got), w, w.Tag, len(got))
	}
	if len(got) > len(want) {
		g := got[len(want)]
		return "cb-call-unexpected:" + g.Kind, fmt.Sprintf("call #%d unexpected: actual %s, only %d calls predicted", len(want), g, len(want))
	}
	return "", ""
}
