package conc

import (
	"fmt"
	"strings"
	"sync"
	"time"

	"github.com/anishathalye/porcupine"
)

// LateReturn is the return stamp of operations that stay open to the end of
// the history.
const LateReturn = int64(1) << 60

// MaxSrc is the maximum number of sources in a scenario.
const MaxSrc = 4

// OpKind enumerates history operations.
type OpKind int

const (
	OpReport OpKind = iota
	OpRead
	OpEnable
)

// Report outcomes as observed by the client.
const (
	ResNil          = iota // returned nil (blocking: installed; non-blocking: submitted)
	ResRejected            // blocking report returned a stacking/verification error
	ResNotSubmitted        // context ended before the value was handed to the monitor
	ResSubmittedUnk        // handed over, outcome not observed (non-blocking nil, or context ended while awaiting)
)

// In is an operation's input.
type In struct {
	Kind     OpKind
	Src      int
	Layer    *Layer
	Blocking bool
}

// Out is an operation's observed output.
type Out struct {
	Res    int
	Err    string
	Serial uint64
	FP     FP
	OK     bool // Enable: success
}

// State is the sequential model's state: the latest layer per source, the
// slot tuple whose stack is installed, the serial, whether verification is on.
type State struct {
	Slots     [MaxSrc]int
	Cur       [MaxSrc]int
	Serial    uint64
	Verifying bool
}

// Model is the sequential specification of a Dials instance fed by fake
// watching sources: ~40 lines that restate C04/C05/C07/C09, not dials' code.
type Model struct {
	Layers  map[int]*Layer // by ID
	NSrc    int
	Def     FP
	Initial State
	// DelayOption: EnableVerification is meaningful.
	DelayOption bool
}

func (m *Model) slotsFP(slots [MaxSrc]int) (FP, bool) {
	ls := make([]*Layer, m.NSrc)
	for i := 0; i < m.NSrc; i++ {
		ls[i] = m.Layers[slots[i]]
	}
	return Stack(m.Def, ls)
}

// applyReport returns the state after the monitor processed a report and
// whether it was installed.
func (m *Model) applyReport(st State, in In) (State, bool) {
	st.Slots[in.Src] = in.Layer.ID
	fp, ok := m.slotsFP(st.Slots)
	if !ok {
		return st, false
	}
	if st.Verifying && !ValidFP(fp) {
		return st, false
	}
	st.Cur = st.Slots
	st.Serial++
	return st, true
}

// Step returns the possible successor states for (state, input, output).
func (m *Model) Step(state, input, output interface{}) []interface{} {
	st := state.(State)
	in := input.(In)
	out := output.(Out)
	switch in.Kind {
	case OpReport:
		switch out.Res {
		case ResNotSubmitted:
			return []interface{}{st}
		case ResSubmittedUnk:
			ns, _ := m.applyReport(st, in)
			return []interface{}{ns}
		case ResNil:
			ns, installed := m.applyReport(st, in)
			if in.Blocking && !installed {
				return nil
			}
			return []interface{}{ns}
		case ResRejected:
			ns, installed := m.applyReport(st, in)
			if installed {
				return nil
			}
			return []interface{}{ns}
		}
	case OpRead:
		fp, _ := m.slotsFP(st.Cur)
		if out.Serial == st.Serial && out.FP == fp {
			return []interface{}{st}
		}
		return nil
	case OpEnable:
		fp, _ := m.slotsFP(st.Cur)
		if out.Res == ResNotSubmitted {
			return []interface{}{st}
		}
		if out.Res == ResSubmittedUnk {
			// the switch-on may or may not have happened
			ns := st
			if ValidFP(fp) {
				ns.Verifying = true
			}
			return []interface{}{ns}
		}
		if !m.DelayOption || st.Verifying {
			if out.OK && out.Serial == st.Serial && out.FP == fp {
				return []interface{}{st}
			}
			return nil
		}
		if ValidFP(fp) {
			if out.OK && out.Serial == st.Serial && out.FP == fp {
				st.Verifying = true
				return []interface{}{st}
			}
			return nil
		}
		if !out.OK {
			return []interface{}{st}
		}
		return nil
	}
	return nil
}

// Porcupine builds the porcupine model.
func (m *Model) Porcupine() porcupine.Model {
	nm := porcupine.NondeterministicModel{
		Init: func() []interface{} { return []interface{}{m.Initial} },
		Step: m.Step,
		Equal: func(a, b interface{}) bool {
			return a.(State) == b.(State)
		},
		DescribeOperation: func(input, output interface{}) string {
			return DescribeOp(input.(In), output.(Out))
		},
		DescribeState: func(s interface{}) string { return fmt.Sprintf("%+v", s) },
	}
	return nm.ToModel()
}

// DescribeOp renders an operation.
func DescribeOp(in In, out Out) string {
	switch in.Kind {
	case OpReport:
		res := []string{"nil", "rejected", "not-submitted", "submitted-unobserved"}[out.Res]
		return fmt.Sprintf("report(src=%d %s blocking=%v) -> %s %s", in.Src, in.Layer, in.Blocking, res, out.Err)
	case OpRead:
		return fmt.Sprintf("read -> serial=%d %+v", out.Serial, out.FP)
	case OpEnable:
		return fmt.Sprintf("enable -> ok=%v res=%d serial=%d %+v %s", out.OK, out.Res, out.Serial, out.FP, out.Err)
	}
	return "?"
}

// History records client-boundary operations with logical timestamps.
type History struct {
	mu  sync.Mutex
	ops []porcupine.Operation
}

// Add appends an operation.
func (h *History) Add(client int, in In, call int64, out Out, ret int64) {
	if out.Res == ResSubmittedUnk {
		// handed to the monitor but not awaited: it may take effect any
		// time until the end of the history, so the operation stays open.
		ret = LateReturn
	}
	h.mu.Lock()
	h.ops = append(h.ops, porcupine.Operation{ClientId: client, Input: in, Call: call, Output: out, Return: ret})
	h.mu.Unlock()
}

// AddBounded records an operation whose effect is known to have happened by
// ret although its outcome was not observed (a non-blocking report followed,
// on the same goroutine, by a blocking report that returned at ret: the
// monitor handles reports in arrival order).
func (h *History) AddBounded(client int, in In, call int64, out Out, ret int64) {
	h.mu.Lock()
	h.ops = append(h.ops, porcupine.Operation{ClientId: client, Input: in, Call: call, Output: out, Return: ret})
	h.mu.Unlock()
}

// Ops returns the recorded operations.
func (h *History) Ops() []porcupine.Operation {
	h.mu.Lock()
	defer h.mu.Unlock()
	return append([]porcupine.Operation(nil), h.ops...)
}

// Len returns the number of operations.
func (h *History) Len() int {
	h.mu.Lock()
	defer h.mu.Unlock()
	return len(h.ops)
}

// Describe renders the history sorted by call time.
func (h *History) Describe() []string {
	ops := h.Ops()
	out := make([]string, 0, len(ops))
	for i := 0; i < len(ops); i++ {
		for j := i + 1; j < len(ops); j++ {
			if ops[j].Call < ops[i].Call {
				ops[i], ops[j] = ops[j], ops[i]
			}
		}
	}
	for _, o := range ops {
		out = append(out, fmt.Sprintf("c%d [%d,%d] %s", o.ClientId, o.Call, o.Return, DescribeOp(o.Input.(In), o.Output.(Out))))
	}
	return out
}

// Check runs porcupine; returns "ok", "illegal" or "unknown".
func (h *History) Check(m *Model, timeout time.Duration) string {
	res := porcupine.CheckOperationsTimeout(m.Porcupine(), h.Ops(), timeout)
	switch res {
	case porcupine.Ok:
		return "ok"
	case porcupine.Illegal:
		return "illegal"
	}
	return "unknown"
}

// ClassifyReportErr maps a report's returned error to an outcome.
func ClassifyReportErr(err error, blocking bool) (int, string) {
	if err == nil {
		if blocking {
			return ResNil, ""
		}
		return ResSubmittedUnk, ""
	}
	s := err.Error()
	switch {
	case strings.Contains(s, "while attempting to submit"):
		return ResNotSubmitted, s
	case strings.Contains(s, "while awaiting restack"):
		return ResSubmittedUnk, s
	case !blocking:
		// ReportNewValue only fails with the context's error: not submitted
		return ResNotSubmitted, s
	}
	return ResRejected, s
}
