// Package conc is the scenario machinery for the concurrent properties
// (C04-C09, C20): a static config type whose Verify method, callbacks and
// fake watching sources are harness code (so they double as observation and
// injection points), layers with unique values, a reference stack, and the
// hook dispatcher for the build-tagged schedule points in dials.
package conc

import (
	"context"
	"errors"
	"fmt"
	"reflect"
	"sort"
	"strings"
	"sync"
	"sync/atomic"

	"github.com/vimeo/dials"
	"github.com/vimeo/dials/ptrify"
)

// Cfg is the config type of all concurrent scenarios. Every exported field is
// a leaf some layer can set; scn is skipped by dials (unexported) and keeps
// its identity through every copy, which is how Verify finds its scenario.
type Cfg struct {
	A, B, C, D int
	S          string
	M          map[string]int
	L          []int
	P          *int
	// N is a user-declared pointer to a struct with a non-nil default: re-stacks merge into it field by field.
	N   *Sub
	scn *Scenario
}

// Sub is Cfg's nested pointer struct.
type Sub struct {
	X int
	Y string
}

// FieldNames are the settable leaves in declaration order (NX, NY are N.X, N.Y).
var FieldNames = []string{"A", "B", "C", "D", "S", "M", "L", "P", "NX", "NY"}

// NumFields is len(FieldNames).
const NumFields = 10

// ErrInvalid is returned by Verify for configs that fail the predicate.
var ErrInvalid = errors.New("harness: config invalid (A<0 or B<0)")

// Valid is the pure, content-determined predicate behind Verify.
func Valid(c *Cfg) bool { return c.A >= 0 && c.B >= 0 }

// Verify implements dials.VerifiedConfig. It runs on the goroutine that
// stacks (Config caller, monitor, EnableVerification caller).
func (c *Cfg) Verify() error {
	if s := c.scn; s != nil {
		s.onVerify(c)
		if f := s.forced(); f != nil {
			if err := f(c); err != nil {
				return err
			}
		}
	}
	if !Valid(c) {
		return fmt.Errorf("%w: A=%d B=%d", ErrInvalid, c.A, c.B)
	}
	return nil
}

// FP is a comparable fingerprint of a config's content.
type FP struct {
	A, B, C, D int
	S, M, L, P string
	NX         int
	NY         string
	NNil       bool
}

// FPOf fingerprints a config.
func FPOf(c *Cfg) FP {
	if c == nil {
		return FP{S: "<nil config>"}
	}
	fp := FP{A: c.A, B: c.B, C: c.C, D: c.D, S: c.S}
	if c.M != nil {
		keys := make([]string, 0, len(c.M))
		for k := range c.M {
			keys = append(keys, k)
		}
		sort.Strings(keys)
		var b strings.Builder
		for _, k := range keys {
			fmt.Fprintf(&b, "%s=%d;", k, c.M[k])
		}
		fp.M = "{" + b.String() + "}"
	}
	if c.L != nil {
		fp.L = fmt.Sprint(c.L)
	}
	if c.P != nil {
		fp.P = fmt.Sprintf("&%d", *c.P)
	}
	if c.N != nil {
		fp.NX, fp.NY = c.N.X, c.N.Y
	} else {
		fp.NNil = true
	}
	return fp
}

// ValidFP is Valid on a fingerprint.
func ValidFP(fp FP) bool { return fp.A >= 0 && fp.B >= 0 }

// Layer is a partial assignment of the leaves with values unique to its ID.
type Layer struct {
	ID  int
	Set [NumFields]bool
	// NegA/NegB make the A/B value negative (invalid config when it wins).
	NegA, NegB bool
	// IllTyped makes the materialised value carry a *string where the config
	// has *int (field P): stacking fails with an error, without panicking.
	IllTyped bool
}

// Apply overlays the layer on a fingerprint (the reference stack for Cfg).
func (l *Layer) Apply(fp FP) FP {
	if l == nil {
		return fp
	}
	v := l.ID * 10
	if l.Set[0] {
		fp.A = v
		if l.NegA {
			fp.A = -v
		}
	}
	if l.Set[1] {
		fp.B = v + 1
		if l.NegB {
			fp.B = -(v + 1)
		}
	}
	if l.Set[2] {
		fp.C = v + 2
	}
	if l.Set[3] {
		fp.D = v + 3
	}
	if l.Set[4] {
		fp.S = fmt.Sprintf("s%d", l.ID)
	}
	if l.Set[5] {
		fp.M = fmt.Sprintf("{k=%d;l%d=1;}", l.ID, l.ID)
	}
	if l.Set[6] {
		fp.L = fmt.Sprintf("[%d %d]", l.ID, v)
	}
	if l.Set[7] {
		fp.P = fmt.Sprintf("&%d", l.ID)
	}
	if l.Set[8] {
		fp.NX = v + 8
		fp.NNil = false
	}
	if l.Set[9] {
		fp.NY = fmt.Sprintf("y%d", l.ID)
		fp.NNil = false
	}
	return fp
}

// String renders the layer compactly.
func (l *Layer) String() string {
	if l == nil {
		return "nil"
	}
	var b strings.Builder
	fmt.Fprintf(&b, "L%d[", l.ID)
	for i, s := range l.Set {
		if s {
			b.WriteString(FieldNames[i])
		}
	}
	if l.NegA {
		b.WriteString(" negA")
	}
	if l.NegB {
		b.WriteString(" negB")
	}
	if l.IllTyped {
		b.WriteString(" illtyped")
	}
	b.WriteString("]")
	return b.String()
}

var (
	ptrTypeOnce sync.Once
	ptrType     reflect.Type
	illType     reflect.Type
)

// PtrType is ptrify.Pointerify(Cfg) (what dials asks sources for).
func PtrType() reflect.Type {
	ptrTypeOnce.Do(func() {
		ptrType = ptrify.Pointerify(reflect.TypeOf(Cfg{}), reflect.Value{})
		fields := make([]reflect.StructField, ptrType.NumField())
		for i := range fields {
			fields[i] = ptrType.Field(i)
			if fields[i].Name == "P" {
				s := ""
				fields[i].Type = reflect.TypeOf(&s)
			}
		}
		illType = reflect.StructOf(fields)
	})
	return ptrType
}

// Materialize builds the source value for a layer as a value of type t
// (the pointerified config type), filling fields by name.
func (l *Layer) Materialize(t reflect.Type) reflect.Value {
	PtrType()
	if l != nil && l.IllTyped {
		t = illType
	}
	v := reflect.New(t).Elem()
	if l == nil {
		return v
	}
	fp := l.Apply(FP{})
	set := func(name string, val any) {
		f := v.FieldByName(name)
		rv := reflect.ValueOf(val)
		if f.Kind() == reflect.Ptr && rv.Kind() != reflect.Ptr {
			p := reflect.New(rv.Type())
			p.Elem().Set(rv)
			rv = p
		}
		f.Set(rv)
	}
	if l.Set[0] {
		set("A", fp.A)
	}
	if l.Set[1] {
		set("B", fp.B)
	}
	if l.Set[2] {
		set("C", fp.C)
	}
	if l.Set[3] {
		set("D", fp.D)
	}
	if l.Set[4] {
		set("S", fp.S)
	}
	if l.Set[5] {
		set("M", map[string]int{"k": l.ID, fmt.Sprintf("l%d", l.ID): 1})
	}
	if l.Set[6] {
		set("L", []int{l.ID, l.ID * 10})
	}
	if l.Set[8] || l.Set[9] {
		n := v.FieldByName("N")
		n.Set(reflect.New(n.Type().Elem()))
		if l.Set[8] {
			x := fp.NX
			n.Elem().FieldByName("X").Set(reflect.ValueOf(&x))
		}
		if l.Set[9] {
			y := fp.NY
			n.Elem().FieldByName("Y").Set(reflect.ValueOf(&y))
		}
	}
	if l.Set[7] || l.IllTyped {
		if l.IllTyped {
			s := "ill"
			v.FieldByName("P").Set(reflect.ValueOf(&s))
		} else {
			id := l.ID
			v.FieldByName("P").Set(reflect.ValueOf(&id))
		}
	}
	return v
}

// Stack is the reference stack: defaults then each slot's layer in order.
// ok is false when some layer is ill-typed (stacking must fail).
func Stack(def FP, slots []*Layer) (fp FP, ok bool) {
	fp = def
	for _, l := range slots {
		if l != nil && l.IllTyped {
			return fp, false
		}
		fp = l.Apply(fp)
	}
	return fp, true
}

// ---------------------------------------------------------------------------
// Scenario

type scnKeyT struct{}

var scnKey scnKeyT

// VerifyCall is one logged invocation of Cfg.Verify.
type VerifyCall struct {
	T       int64
	FP      FP
	Cfg     *Cfg
	Visible bool // the receiver was already what View() returns
	// DuringEnable: the call was made while the monitor handled an
	// EnableVerification request (then Visible is expected).
	DuringEnable bool
}

// Scenario ties one Dials instance to its logs and hook behaviour.
type Scenario struct {
	Ctx    context.Context
	Cancel context.CancelFunc
	D      *dials.Dials[Cfg]

	clock atomic.Int64

	mu        sync.Mutex
	verifyLog []VerifyCall
	// inVerify is set while HoldInVerify keeps the monitor parked inside Verify.
	inVerify atomic.Bool
	// OnVerify, if set, is called (outside mu) on every Verify with the receiver.
	OnVerify func(c *Cfg)
	// Hook, if set, is called at every dials hook point of this scenario.
	Hook func(name string, ctx context.Context, args []any)

	forceErr func(c *Cfg) error
	dset     atomic.Bool
	// monInEnable: the monitor's latest received message was an
	// EnableVerification request (its Verify call legitimately sees the
	// installed config).
	monInEnable atomic.Bool
}

// ForceVerifyErr installs (or with nil removes) a function that can make
// Verify fail for reasons outside the config's content (an impure Verify).
func (s *Scenario) ForceVerifyErr(f func(c *Cfg) error) {
	s.mu.Lock()
	s.forceErr = f
	s.mu.Unlock()
}

func (s *Scenario) forced() func(c *Cfg) error {
	s.mu.Lock()
	defer s.mu.Unlock()
	return s.forceErr
}

// MonInEnable reports whether the monitor's latest message was an EnableVerification request.
func (s *Scenario) MonInEnable() bool { return s.monInEnable.Load() }

// Tick returns the next logical timestamp.
func (s *Scenario) Tick() int64 { return s.clock.Add(1) }

// NewScenario creates a scenario whose context carries it (so hook points
// can find it).
func NewScenario(parent context.Context) *Scenario {
	s := &Scenario{}
	ctx, cancel := context.WithCancel(parent)
	s.Ctx = context.WithValue(ctx, scnKey, s)
	s.Cancel = cancel
	return s
}

// Defaults returns a defaults value bound to the scenario.
func (s *Scenario) Defaults() *Cfg {
	return &Cfg{C: 7, S: "dflt", N: &Sub{X: 5, Y: "ny"}, scn: s}
}

// DefaultsFP is the fingerprint of Defaults().
func DefaultsFP() FP { return FP{C: 7, S: "dflt", NX: 5, NY: "ny"} }

// SetDials records the Dials instance (after Config returned).
func (s *Scenario) SetDials(d *dials.Dials[Cfg]) {
	s.D = d
	s.dset.Store(true)
}

func (s *Scenario) onVerify(c *Cfg) {
	vc := VerifyCall{T: s.Tick(), FP: FPOf(c), Cfg: c, DuringEnable: s.monInEnable.Load()}
	if s.dset.Load() && s.D != nil {
		if s.D.View() == c {
			vc.Visible = true
		}
	}
	s.mu.Lock()
	s.verifyLog = append(s.verifyLog, vc)
	f := s.OnVerify
	s.mu.Unlock()
	if f != nil {
		f(c)
	}
}

// InVerify reports whether HoldInVerify currently has the monitor parked inside Verify.
func (s *Scenario) InVerify() bool { return s.inVerify.Load() }

// VerifyLog returns a copy of the Verify call log.
func (s *Scenario) VerifyLog() []VerifyCall {
	s.mu.Lock()
	defer s.mu.Unlock()
	return append([]VerifyCall(nil), s.verifyLog...)
}

// ScenarioOf finds the scenario carried by a context.
func ScenarioOf(ctx context.Context) *Scenario {
	if ctx == nil {
		return nil
	}
	s, _ := ctx.Value(scnKey).(*Scenario)
	return s
}

var hookOnce sync.Once

// InstallHooks installs the global dispatcher (idempotent).
func InstallHooks() {
	hookOnce.Do(func() {
		dials.VerifSetHook(func(name string, args ...any) {
			if len(args) == 0 {
				return
			}
			ctx, _ := args[0].(context.Context)
			s := ScenarioOf(ctx)
			if s == nil {
				return
			}
			if name == "mon.recv" && len(args) > 2 {
				if k, ok := args[2].(string); ok && k == "enable" {
					s.monInEnable.Store(true)
				} else {
					s.monInEnable.Store(false)
				}
			}
			if h := s.Hook; h != nil {
				h(name, ctx, args[1:])
			}
		})
	})
}

// SerialOf reads the opaque serial number out of a CfgSerial by reflection.
func SerialOf(tok dials.CfgSerial[Cfg]) uint64 {
	return reflect.ValueOf(tok).FieldByName("s").Uint()
}

// ---------------------------------------------------------------------------
// fake watching source

// Src is a fake source: Value returns the materialised initial layer; if
// Watching it also implements dials.Watcher and exposes the WatchArgs.
type Src struct {
	Name     string
	Init     *Layer
	ValueErr error
	WatchErr error

	mu  sync.Mutex
	wa  dials.WatchArgs
	typ *dials.Type
	// ValueCalls counts Value invocations.
	ValueCalls atomic.Int64
	// handed holds every value this source gave to dials (Value results and reports).
	handed []reflect.Value
}

// Handed returns every value this source gave to dials.
func (s *Src) Handed() []reflect.Value {
	s.mu.Lock()
	defer s.mu.Unlock()
	return append([]reflect.Value(nil), s.handed...)
}

func (s *Src) remember(v reflect.Value) {
	s.mu.Lock()
	s.handed = append(s.handed, v)
	s.mu.Unlock()
}

// Value implements dials.Source.
func (s *Src) Value(_ context.Context, t *dials.Type) (reflect.Value, error) {
	s.ValueCalls.Add(1)
	if s.ValueErr != nil {
		return reflect.Value{}, s.ValueErr
	}
	v := s.Init.Materialize(t.Type())
	s.remember(v)
	return v, nil
}

// WSrc is a watching Src.
type WSrc struct {
	Src
	last reflect.Value
	// pers is the one value object ReportInPlace keeps, rewrites and re-reports
	pers reflect.Value
	// buf is the backing array ReportInPlace reuses for the list field
	buf reflect.Value
}

// Watch implements dials.Watcher.
func (s *WSrc) Watch(_ context.Context, t *dials.Type, wa dials.WatchArgs) error {
	if s.WatchErr != nil {
		return s.WatchErr
	}
	s.mu.Lock()
	s.wa = wa
	s.typ = t
	s.mu.Unlock()
	return nil
}

// WA returns the WatchArgs handed to Watch.
func (s *WSrc) WA() dials.WatchArgs {
	s.mu.Lock()
	defer s.mu.Unlock()
	return s.wa
}

// Type returns the type handed to Watch.
func (s *WSrc) Type() reflect.Type {
	s.mu.Lock()
	defer s.mu.Unlock()
	if s.typ == nil {
		return PtrType()
	}
	return s.typ.Type()
}

// Report sends a layer (blocking or not) and returns the error. The value
// is handed over as a pointer to the struct (sources may do either) and kept
// so that ReReport can hand the very same object again.
func (s *WSrc) Report(ctx context.Context, l *Layer, blocking bool) error {
	v := l.Materialize(s.Type())
	s.remember(v)
	if v.CanAddr() && l != nil && l.ID%2 == 0 {
		v = v.Addr()
	}
	s.mu.Lock()
	s.last = v
	s.mu.Unlock()
	if blocking {
		return s.WA().BlockingReportNewValue(ctx, v)
	}
	return s.WA().ReportNewValue(ctx, v)
}

// ReportInPlace is a watcher that keeps a single value object: it overwrites that object with the new layer and hands
// over the same pointer every time (blocking only, so dials is never reading the object while it is rewritten).
func (s *WSrc) ReportInPlace(ctx context.Context, l *Layer) error {
	v := l.Materialize(s.Type())
	s.mu.Lock()
	if !s.pers.IsValid() || s.pers.Type().Elem() != v.Type() {
		s.pers = reflect.New(v.Type())
	}
	p := s.pers
	s.last = p
	s.mu.Unlock()
	p.Elem().Set(v)
	// it also keeps its list buffer: same backing array, same length, new contents
	if lf := p.Elem().FieldByName("L"); lf.IsValid() && lf.Kind() == reflect.Slice && !lf.IsNil() {
		if s.buf.IsValid() && s.buf.Len() == lf.Len() && s.buf.Type() == lf.Type() {
			reflect.Copy(s.buf, lf)
			lf.Set(s.buf)
		} else {
			s.buf = reflect.ValueOf(lf.Interface()) // the slice header itself, not the field
		}
	}
	return s.WA().BlockingReportNewValue(ctx, p)
}

// ReReport reports the identical value object of the previous Report again
// (a watcher that re-sends its current state).
func (s *WSrc) ReReport(ctx context.Context, blocking bool) error {
	s.mu.Lock()
	v := s.last
	s.mu.Unlock()
	if blocking {
		return s.WA().BlockingReportNewValue(ctx, v)
	}
	return s.WA().ReportNewValue(ctx, v)
}

// SetOnVerify installs (or, with nil, removes) the function every Verify call runs first.
func (s *Scenario) SetOnVerify(f func(c *Cfg)) {
	s.mu.Lock()
	s.OnVerify = f
	s.mu.Unlock()
}
