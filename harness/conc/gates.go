package conc

import (
	"sync"
	"time"
)

// Gate is a one-shot rendezvous at a hook point: the goroutine reaching the
// point signals Reached and blocks until Release is closed.
type Gate struct {
	Reached chan struct{}
	release chan struct{}
	once    sync.Once
	pred    func(args []any) bool
}

// Release lets the parked goroutine continue (idempotent).
func (g *Gate) Release() { g.once.Do(func() { close(g.release) }) }

// Wait waits until the gate was reached; false on watchdog expiry.
func (g *Gate) Wait(d time.Duration) bool {
	select {
	case <-g.Reached:
		return true
	case <-time.After(d):
		return false
	}
}

// Gates holds armed gates by hook name.
type Gates struct {
	mu    sync.Mutex
	armed map[string][]*Gate
}

// NewGates creates an empty gate set.
func NewGates() *Gates { return &Gates{armed: map[string][]*Gate{}} }

// Arm arms a gate at a hook point; pred (optional) filters by hook args.
// With observeOnly the gate is pre-released (it only signals Reached).
func (gs *Gates) Arm(point string, pred func(args []any) bool, observeOnly bool) *Gate {
	g := &Gate{Reached: make(chan struct{}), release: make(chan struct{}), pred: pred}
	if observeOnly {
		g.Release()
	}
	gs.mu.Lock()
	gs.armed[point] = append(gs.armed[point], g)
	gs.mu.Unlock()
	return g
}

// ReleaseAll releases every armed gate (cleanup).
func (gs *Gates) ReleaseAll() {
	gs.mu.Lock()
	defer gs.mu.Unlock()
	for _, l := range gs.armed {
		for _, g := range l {
			g.Release()
		}
	}
}

// OnHook must be called from the scenario hook.
func (gs *Gates) OnHook(name string, args []any) {
	gs.mu.Lock()
	var hit *Gate
	l := gs.armed[name]
	for i, g := range l {
		if g.pred == nil || g.pred(args) {
			hit = g
			gs.armed[name] = append(l[:i:i], l[i+1:]...)
			break
		}
	}
	gs.mu.Unlock()
	if hit == nil {
		return
	}
	close(hit.Reached)
	<-hit.release
}
