package conc

import (
	"context"
	"errors"
	"fmt"
	"runtime"
	"sync"
	"sync/atomic"
	"time"

	"github.com/vimeo/dials"

	"verifharness/fw"
)

// CBEvent is one invocation of a callback (global or registered).
type CBEvent struct {
	Enter, Exit int64
	Kind        string // "new", "err", "reg"
	Handle      int    // registered-callback id (Kind "reg")
	Old, New    *Cfg
	OldFP       FP
	NewFP       FP
	NewNil      bool
	OldNil      bool
	Err         string
}

// Install is one observation of the version store (mon.stored hook).
type Install struct {
	T      int64
	Serial uint64
	Cfg    *Cfg
	FP     FP
}

// Opts are the Params options of a scenario.
type Opts struct {
	Skip, Delay, Suppress bool
	NSrc                  int
	// StaticFirst puts a non-watching source before the watchers.
	StaticFirst bool
	// NoGlobalCBs leaves OnNewConfig/OnWatchedError nil.
	NoGlobalCBs bool
	// SlowCB: pause (yield loops) inside global callbacks.
	SlowCB int
}

// Env is a running scenario: Dials + fake sources + model + logs.
type Env struct {
	S      *Scenario
	D      *dials.Dials[Cfg]
	Srcs   []*WSrc
	Static *Src
	Opts   Opts
	Model  *Model
	H      *History
	Seed   uint64
	// Def is the caller's defaults object handed to Config.
	Def *Cfg
	// Wrapped is the index of a source that sits behind a transforming wrapper (0 = none; slot 0 is never wrapped):
	// ill-typed probe values are not built for it.
	Wrapped int

	mu       sync.Mutex
	cbLog    []CBEvent
	installs []Install
	inCB     atomic.Int32
	// Overlap is set when two callbacks were ever in flight at once.
	Overlap   atomic.Bool
	nextID    atomic.Int64
	sentinels atomic.Int64
	hookN     atomic.Uint64
	// Jitter: percentage of hook points at which the monitor/callback
	// goroutine yields (seeded).
	Jitter int
	// ExtraHook is called after the standard hook handling.
	ExtraHook func(name string, ctx context.Context, args []any)
	// CBGate, if non-nil, is received from inside every global callback
	// before it returns (lets a script park the callback goroutine).
	CBGate chan struct{}
	gate   atomic.Pointer[chan struct{}]
}

// NewLayer allocates a layer with a fresh ID and registers it in the model.
func (e *Env) NewLayer() *Layer {
	l := &Layer{ID: int(e.nextID.Add(1))}
	e.mu.Lock()
	e.Model.Layers[l.ID] = l
	e.mu.Unlock()
	return l
}

// RandLayer draws a layer: random set pattern, invalid/ill-typed with the given percentages.
func (e *Env) RandLayer(r *fw.Rand, invalidPct, illPct int) *Layer {
	l := e.NewLayer()
	any := false
	for i := range l.Set {
		if r.Chance(40) {
			l.Set[i] = true
			any = true
		}
	}
	if !any && r.Chance(80) {
		l.Set[r.Intn(NumFields)] = true
	}
	if r.Chance(invalidPct) {
		if r.Bool() {
			l.Set[0], l.NegA = true, true
		} else {
			l.Set[1], l.NegB = true, true
		}
	} else if r.Chance(illPct) {
		l.IllTyped = true
	}
	return l
}

// CBLog returns a copy of the callback log.
func (e *Env) CBLog() []CBEvent {
	e.mu.Lock()
	defer e.mu.Unlock()
	return append([]CBEvent(nil), e.cbLog...)
}

// Installs returns a copy of the install log.
func (e *Env) Installs() []Install {
	e.mu.Lock()
	defer e.mu.Unlock()
	return append([]Install(nil), e.installs...)
}

func (e *Env) enterCB() int64 {
	if e.inCB.Add(1) > 1 {
		e.Overlap.Store(true)
	}
	return e.S.Tick()
}

func (e *Env) exitCB(ev CBEvent) {
	ev.Exit = e.S.Tick()
	e.mu.Lock()
	e.cbLog = append(e.cbLog, ev)
	e.mu.Unlock()
	e.inCB.Add(-1)
}

// RegisteredCB returns a NewConfigHandler that logs under the given handle id.
func (e *Env) RegisteredCB(handle int, extra func(old, nw *Cfg)) dials.NewConfigHandler[Cfg] {
	return func(_ context.Context, old, nw *Cfg) {
		t := e.enterCB()
		if extra != nil {
			extra(old, nw)
		}
		e.exitCB(CBEvent{Enter: t, Kind: "reg", Handle: handle, Old: old, New: nw, OldFP: FPOf(old), NewFP: FPOf(nw), OldNil: old == nil, NewNil: nw == nil})
	}
}

func (e *Env) pause(n int) {
	for i := 0; i < n; i++ {
		runtime.Gosched()
	}
}

// Start builds the sources and calls Params.Config. initLayers[i] is source
// i's initial layer (nil = sets nothing).
func Start(parent context.Context, seed uint64, o Opts, initLayers func(e *Env, i int) *Layer) (*Env, error) {
	return StartWith(parent, seed, o, initLayers, nil)
}

// StartWith is Start with a hook to substitute the dials.Source used for
// slot i (e.g. a sourcewrap.Blank); the model still tracks the slot.
func StartWith(parent context.Context, seed uint64, o Opts, initLayers func(e *Env, i int) *Layer, subst func(i int, def dials.Source) dials.Source) (*Env, error) {
	InstallHooks()
	if o.NSrc <= 0 {
		o.NSrc = 2
	}
	e := &Env{Opts: o, H: &History{}, Seed: seed}
	e.S = NewScenario(parent)
	e.Model = &Model{Layers: map[int]*Layer{}, NSrc: o.NSrc, Def: DefaultsFP(), DelayOption: o.Delay}
	e.S.Hook = e.onHook
	var sources []dials.Source
	nsrc := o.NSrc
	var init State
	for i := 0; i < nsrc; i++ {
		var l *Layer
		if initLayers != nil {
			l = initLayers(e, i)
		}
		if l != nil {
			init.Slots[i] = l.ID
		}
		if i == 0 && o.StaticFirst {
			e.Static = &Src{Name: "static0", Init: l}
			e.Srcs = append(e.Srcs, nil)
			sources = append(sources, e.Static)
			continue
		}
		ws := &WSrc{Src: Src{Name: fmt.Sprintf("w%d", i), Init: l}}
		e.Srcs = append(e.Srcs, ws)
		if subst != nil {
			sources = append(sources, subst(i, ws))
		} else {
			sources = append(sources, ws)
		}
	}
	init.Cur = init.Slots
	init.Verifying = !o.Delay
	e.Model.Initial = init
	p := dials.Params[Cfg]{SkipInitialVerification: o.Skip, DelayInitialVerification: o.Delay,
		CallGlobalCallbacksAfterVerificationEnabled: o.Suppress}
	if !o.NoGlobalCBs {
		p.OnNewConfig = func(_ context.Context, old, nw *Cfg) {
			t := e.enterCB()
			e.pause(o.SlowCB)
			if g := e.cbGate(); g != nil {
				<-g
			}
			e.exitCB(CBEvent{Enter: t, Kind: "new", Old: old, New: nw, OldFP: FPOf(old), NewFP: FPOf(nw), OldNil: old == nil, NewNil: nw == nil})
		}
		p.OnWatchedError = func(_ context.Context, err error, old, nw *Cfg) {
			t := e.enterCB()
			e.pause(o.SlowCB)
			ev := CBEvent{Enter: t, Kind: "err", Old: old, New: nw, OldFP: FPOf(old), OldNil: old == nil, NewNil: nw == nil}
			if nw != nil {
				ev.NewFP = FPOf(nw)
			}
			if err != nil {
				ev.Err = err.Error()
			}
			e.exitCB(ev)
		}
	}
	e.Def = e.S.Defaults()
	d, err := p.Config(e.S.Ctx, e.Def, sources...)
	if err != nil {
		e.S.Cancel()
		return e, err
	}
	e.D = d
	e.S.SetDials(d)
	return e, nil
}

func (e *Env) onHook(name string, ctx context.Context, args []any) {
	switch name {
	case "mon.stored":
		// args: d, serial, cfg
		if len(args) >= 3 {
			serial, _ := args[1].(uint64)
			cfg, _ := args[2].(*Cfg)
			in := Install{T: e.S.Tick(), Serial: serial, Cfg: cfg, FP: FPOf(cfg)}
			e.mu.Lock()
			e.installs = append(e.installs, in)
			e.mu.Unlock()
		}
	}
	if e.Jitter > 0 {
		n := e.hookN.Add(1)
		x := fw.Mix(e.Seed, n)
		if int(x%100) < e.Jitter {
			switch (x >> 8) % 4 {
			case 0:
				runtime.Gosched()
			case 1:
				e.pause(5)
			case 2:
				time.Sleep(time.Duration((x>>16)%200) * time.Microsecond)
			default:
				e.pause(20)
			}
		}
	}
	if h := e.ExtraHook; h != nil {
		h(name, ctx, args)
	}
}

// SetCBGate installs (or, with nil, removes) the channel every global callback waits on. The callbacks read it through
// an atomic mirror: the callback goroutine may be running a callback while the test installs a gate.
func (e *Env) SetCBGate(g chan struct{}) {
	e.CBGate = g
	if g == nil {
		e.gate.Store(nil)
		return
	}
	e.gate.Store(&g)
}

func (e *Env) cbGate() chan struct{} {
	if p := e.gate.Load(); p != nil {
		return *p
	}
	return nil
}

// ScribbleCallerDefaults overwrites, after Config has returned, what the caller's own defaults object holds (also
// behind its nested pointer). The caller owns that object; Dials must have taken its own copy.
func (e *Env) ScribbleCallerDefaults() {
	if e.Def == nil {
		return
	}
	e.Def.C, e.Def.S = -777, "scribbled-by-the-caller"
	if e.Def.N != nil {
		e.Def.N.X, e.Def.N.Y = -778, "scribbled-by-the-caller"
	}
}

// Read performs a ViewVersion and records it in the history.
func (e *Env) Read(client int) (uint64, *Cfg) {
	call := e.S.Tick()
	cfg, tok := e.D.ViewVersion()
	ret := e.S.Tick()
	ser := SerialOf(tok)
	e.H.Add(client, In{Kind: OpRead}, call, Out{Serial: ser, FP: FPOf(cfg)}, ret)
	return ser, cfg
}

// Report reports a layer from source src and records it in the history.
func (e *Env) Report(ctx context.Context, client, src int, l *Layer, blocking bool) (int, error) {
	call := e.S.Tick()
	err := e.Srcs[src].Report(ctx, l, blocking)
	ret := e.S.Tick()
	res, es := ClassifyReportErr(err, blocking)
	e.H.Add(client, In{Kind: OpReport, Src: src, Layer: l, Blocking: blocking}, call, Out{Res: res, Err: es}, ret)
	return res, err
}

// ReportInPlace: source src rewrites its one persistent value object with layer l and reports the same pointer
// (blocking); recorded like a blocking report of l.
func (e *Env) ReportInPlace(ctx context.Context, client, src int, l *Layer) (int, error) {
	call := e.S.Tick()
	err := e.Srcs[src].ReportInPlace(ctx, l)
	ret := e.S.Tick()
	res, es := ClassifyReportErr(err, true)
	e.H.Add(client, In{Kind: OpReport, Src: src, Layer: l, Blocking: true}, call, Out{Res: res, Err: es}, ret)
	return res, err
}

// ReReport makes source src hand over the identical value object of its
// previous report (layer l) again, and records it like a report of l.
func (e *Env) ReReport(ctx context.Context, client, src int, l *Layer, blocking bool) (int, error) {
	call := e.S.Tick()
	err := e.Srcs[src].ReReport(ctx, blocking)
	ret := e.S.Tick()
	res, es := ClassifyReportErr(err, blocking)
	e.H.Add(client, In{Kind: OpReport, Src: src, Layer: l, Blocking: blocking}, call, Out{Res: res, Err: es}, ret)
	return res, err
}

// Enable calls EnableVerification and records it.
func (e *Env) Enable(ctx context.Context, client int) (*Cfg, uint64, error) {
	call := e.S.Tick()
	cfg, tok, err := e.D.EnableVerification(ctx)
	ret := e.S.Tick()
	out := Out{OK: err == nil}
	if err == nil {
		out.Serial = SerialOf(tok)
		out.FP = FPOf(cfg)
	} else {
		out.Err = err.Error()
		if ctx.Err() != nil {
			switch {
			case containsStr(out.Err, "while signaling"):
				out.Res = ResNotSubmitted
			case containsStr(out.Err, "while awaiting response"):
				out.Res = ResSubmittedUnk
			}
		}
	}
	e.H.Add(client, In{Kind: OpEnable}, call, out, ret)
	return cfg, out.Serial, err
}

func containsStr(s, sub string) bool {
	return len(sub) <= len(s) && (s == sub || indexOf(s, sub) >= 0)
}

func indexOf(s, sub string) int {
	for i := 0; i+len(sub) <= len(s); i++ {
		if s[i:i+len(sub)] == sub {
			return i
		}
	}
	return -1
}

// FenceCallbacks waits until the callback goroutine has processed every
// event queued before the call (a register/unregister round trip through
// the same FIFO channel). Returns false if the round trip failed.
func (e *Env) FenceCallbacks(ctx context.Context) bool {
	unreg := e.D.RegisterCallback(ctx, dials.CfgSerial[Cfg]{}, func(context.Context, *Cfg, *Cfg) {})
	if unreg == nil {
		return false
	}
	return unreg(ctx)
}

// Stop cancels the scenario and waits for the monitor to exit.
func (e *Env) Stop() bool {
	e.S.Cancel()
	if e.D == nil {
		return true
	}
	done := dials.VerifMonitorDone(e.D)
	if done == nil {
		return true
	}
	select {
	case <-done:
		return true
	case <-time.After(10 * time.Second):
		return false
	}
}

// InCB returns the number of callbacks currently executing.
func (e *Env) InCB() int32 { return e.inCB.Load() }

// WaitUntil polls cond (yielding) until it holds; false when the watchdog expires.
func WaitUntil(cond func() bool, d time.Duration) bool {
	deadline := time.Now().Add(d)
	for !cond() {
		if time.Now().After(deadline) {
			return false
		}
		time.Sleep(50 * time.Microsecond)
	}
	return true
}

// ErrSentinel is the error reported by FenceMonitor.
var ErrSentinel = errors.New("harness: monitor fence sentinel")

// FenceMonitor returns once the monitor goroutine has finished every loop
// iteration that started before the call (including the announce step that
// follows a blocking report's reply): it reports a sentinel error through a
// watching source, and the unbuffered report channel is only received from
// at the top of the monitor loop. Side effect: one watch-error event.
func (e *Env) FenceMonitor(ctx context.Context) bool {
	return e.SendSentinel(ctx)
}

// SendSentinel reports the sentinel error through the first watching source
// and counts it (see SentinelsSent).
func (e *Env) SendSentinel(ctx context.Context) bool {
	for _, s := range e.Srcs {
		if s != nil && s.WA() != nil {
			if s.WA().ReportError(ctx, ErrSentinel) == nil {
				e.sentinels.Add(1)
				return true
			}
			return false
		}
	}
	return false
}

// SentinelsSent is the number of sentinel errors handed to the monitor.
func (e *Env) SentinelsSent() int64 { return e.sentinels.Load() }

// ErrCallbacks counts logged OnWatchedError invocations.
func (e *Env) ErrCallbacks() int64 {
	e.mu.Lock()
	defer e.mu.Unlock()
	n := int64(0)
	for _, ev := range e.cbLog {
		if ev.Kind == "err" {
			n++
		}
	}
	return n
}

// SentinelCallbacks counts logged OnWatchedError invocations that carried the fence sentinel.
func (e *Env) SentinelCallbacks() int64 {
	e.mu.Lock()
	defer e.mu.Unlock()
	n := int64(0)
	for _, ev := range e.cbLog {
		if ev.Kind == "err" && containsStr(ev.Err, ErrSentinel.Error()) {
			n++
		}
	}
	return n
}

// Quiesce = FenceMonitor then FenceCallbacks: afterwards every install made
// before the call has been announced and every queued callback has run.
func (e *Env) Quiesce(ctx context.Context) bool {
	return e.FenceMonitor(ctx) && e.FenceCallbacks(ctx)
}

// AbandonInVerify performs a blocking report of l from source src whose context is cancelled while the monitor is
// inside Verify for it (the caller gives up; the monitor finishes the update afterwards). Returns false when Verify was
// not reached (verification not active, or the value failed to stack), in which case the report simply completed.
// The operation is recorded in the history as a blocking report whose context ended after submission.
func (e *Env) AbandonInVerify(client, src int, l *Layer) (abandoned bool, res int) {
	reached, release := make(chan struct{}), make(chan struct{})
	var once sync.Once
	armed := atomic.Bool{}
	armed.Store(true)
	setHook := func(f func(*Cfg)) {
		e.S.mu.Lock()
		e.S.OnVerify = f
		e.S.mu.Unlock()
	}
	setHook(func(*Cfg) {
		if armed.CompareAndSwap(true, false) {
			once.Do(func() { close(reached) })
			<-release
		}
	})
	defer setHook(nil)
	cctx, cancel := context.WithCancel(e.S.Ctx)
	defer cancel()
	type out struct {
		res int
		err error
	}
	done := make(chan out, 1)
	go func() {
		r, err := e.Report(cctx, client, src, l, true)
		done <- out{r, err}
	}()
	select {
	case <-reached:
		cancel()
		o := <-done
		close(release)
		return true, o.res
	case o := <-done:
		armed.Store(false)
		close(release)
		return false, o.res
	}
}

// HoldInVerify performs a blocking report of l from source src and keeps the monitor parked inside Verify for it until
// `until` is closed (or 10s pass); the report then completes normally. Returns false if Verify was not reached.
func (e *Env) HoldInVerify(client, src int, l *Layer, until <-chan struct{}) (reached bool, res int) {
	in, release := make(chan struct{}), make(chan struct{})
	armed := atomic.Bool{}
	armed.Store(true)
	setHook := func(f func(*Cfg)) {
		e.S.mu.Lock()
		e.S.OnVerify = f
		e.S.mu.Unlock()
	}
	setHook(func(*Cfg) {
		if armed.CompareAndSwap(true, false) {
			e.S.inVerify.Store(true)
			close(in)
			<-release
			e.S.inVerify.Store(false)
		}
	})
	defer setHook(nil)
	type out struct{ res int }
	done := make(chan out, 1)
	go func() {
		r, _ := e.Report(e.S.Ctx, client, src, l, true)
		done <- out{r}
	}()
	select {
	case <-in:
		select {
		case <-until:
		case <-time.After(10 * time.Second):
		}
		close(release)
		o := <-done
		return true, o.res
	case o := <-done:
		armed.Store(false)
		close(release)
		return false, o.res
	}
}

// AbandonFnInVerify runs do(ctx) (a blocking report of some kind, e.g. Blank.SetSource) and cancels ctx while the
// monitor is inside Verify for it. Returns false when Verify was not reached (do then simply completed).
func (e *Env) AbandonFnInVerify(do func(ctx context.Context) error) (abandoned bool, err error) {
	reached, release := make(chan struct{}), make(chan struct{})
	armed := atomic.Bool{}
	armed.Store(true)
	setHook := func(f func(*Cfg)) {
		e.S.mu.Lock()
		e.S.OnVerify = f
		e.S.mu.Unlock()
	}
	setHook(func(*Cfg) {
		if armed.CompareAndSwap(true, false) {
			close(reached)
			<-release
		}
	})
	defer setHook(nil)
	cctx, cancel := context.WithCancel(e.S.Ctx)
	defer cancel()
	done := make(chan error, 1)
	go func() { done <- do(cctx) }()
	select {
	case <-reached:
		cancel()
		err = <-done
		close(release)
		return true, err
	case err = <-done:
		armed.Store(false)
		close(release)
		return false, err
	}
}
